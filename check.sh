#!/bin/sh
# usage: ./check.sh <ID> <tier>
cd "$(dirname "$0")"
PYTHONHASHSEED=0 exec /venv/bin/python -m pbt.run "$1" --tier "${2:-quick}"
