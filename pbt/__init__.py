"""Property-based checks for django-evolution (see /verif/DESIGN.md)."""
