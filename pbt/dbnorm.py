"""Normalised SQLite schema dumps and "mismatch atoms" (DESIGN.md section 4.1).

`dump(execute)` takes a callable execute(sql) -> list of row tuples, so it works
both with Django connections and plain sqlite3 connections.
"""
import re

BOOKKEEPING = ('django_evolution', 'django_project_version',
               'django_migrations', 'django_content_type', 'sqlite_sequence')


def django_exec(alias):
    from django.db import connections

    def execute(sql, params=()):
        cur = connections[alias].cursor()
        try:
            # bypass Django's %-format handling: use the raw sqlite cursor
            raw = cur.cursor
            raw = getattr(raw, 'cursor', raw)
            import sqlite3
            sqlite3.Cursor.execute(raw, sql, params)
            return raw.fetchall()
        finally:
            cur.close()
    return execute


def sqlite_exec(conn):
    def execute(sql, params=()):
        return conn.execute(sql, params).fetchall()
    return execute


def qn(name):
    return '"%s"' % name.replace('"', '""')


def norm_ws(text):
    return re.sub(r'\s+', ' ', text or '').strip()


def norm_expr(text):
    """Normalise an SQL expression: whitespace, quotes around identifiers,
    redundant outer parentheses."""
    t = norm_ws(text)
    t = t.replace('"', '').replace('`', '')
    t = re.sub(r'\(\s+', '(', t)
    t = re.sub(r'\s+\)', ')', t)
    while t.startswith('(') and _matching(t, 0) == len(t) - 1:
        t = t[1:-1].strip()
    return t


def _matching(t, i):
    depth = 0
    instr = False
    j = i
    while j < len(t):
        ch = t[j]
        if instr:
            if ch == "'":
                if j + 1 < len(t) and t[j + 1] == "'":
                    j += 1
                else:
                    instr = False
        elif ch == "'":
            instr = True
        elif ch == '(':
            depth += 1
        elif ch == ')':
            depth -= 1
            if depth == 0:
                return j
        j += 1
    return -1


def split_top(text):
    """Split a CREATE TABLE body on top-level commas."""
    parts = []
    depth = 0
    instr = False
    cur = []
    i = 0
    while i < len(text):
        ch = text[i]
        if instr:
            cur.append(ch)
            if ch == "'":
                if i + 1 < len(text) and text[i + 1] == "'":
                    cur.append("'")
                    i += 1
                else:
                    instr = False
        elif ch == "'":
            instr = True
            cur.append(ch)
        elif ch == '(':
            depth += 1
            cur.append(ch)
        elif ch == ')':
            depth -= 1
            cur.append(ch)
        elif ch == ',' and depth == 0:
            parts.append(''.join(cur).strip())
            cur = []
        else:
            cur.append(ch)
        i += 1
    if ''.join(cur).strip():
        parts.append(''.join(cur).strip())
    return parts


def parse_checks(create_sql):
    """Set of (name|None, normalised expr) CHECK constraints of a table."""
    out = set()
    if not create_sql:
        return out
    start = create_sql.find('(')
    end = create_sql.rfind(')')
    body = create_sql[start + 1:end]
    for part in split_top(body):
        up = part.upper()
        pos = 0
        while True:
            m = re.search(r'\bCHECK\s*\(', part[pos:], re.I)
            if not m:
                break
            s = pos + m.end() - 1
            e = _matching(part, s)
            if e < 0:
                break
            expr = part[s + 1:e]
            name = None
            head = part[:pos + m.start()]
            mm = re.search(r'CONSTRAINT\s+("(?:[^"]|"")*"|\S+)\s*$', head, re.I)
            if mm:
                name = mm.group(1).strip('"')
            out.add((name, norm_expr(expr)))
            pos = e + 1
        del up
    return out


def table_names(execute, include_bookkeeping=False):
    rows = execute("SELECT name FROM sqlite_master WHERE type='table' ORDER BY name")
    names = [r[0] for r in rows]
    if not include_bookkeeping:
        names = [n for n in names if n not in BOOKKEEPING and not n.startswith('sqlite_')]
    return names


def dump_table(execute, t):
    info = execute('PRAGMA table_info(%s)' % qn(t))
    cols = set()
    for cid, name, ctype, notnull, dflt, pk in info:
        cols.add((name, norm_ws(ctype).lower(), bool(notnull) or bool(pk), int(pk)))
    indexes = []
    for row in execute('PRAGMA index_list(%s)' % qn(t)):
        iname, unique, origin = row[1], row[2], row[3] if len(row) > 3 else 'c'
        partial = row[4] if len(row) > 4 else 0
        if origin == 'pk':
            continue
        xinfo = execute('PRAGMA index_xinfo(%s)' % qn(iname))
        keycols = []
        for xr in xinfo:
            # seqno, cid, name, desc, coll, key
            if xr[5]:
                keycols.append((xr[2], bool(xr[3])))
        where = ''
        sqlrow = execute("SELECT sql FROM sqlite_master WHERE type='index' AND name=?", (iname,))
        isql = sqlrow[0][0] if sqlrow else None
        if partial and isql:
            m = re.search(r'\bWHERE\b(.*)$', isql, re.I | re.S)
            if m:
                where = norm_expr(m.group(1))
        indexes.append({'name': iname, 'unique': bool(unique), 'cols': tuple(keycols),
                        'where': where, 'auto': iname.startswith('sqlite_autoindex'),
                        'sql': isql})
    create = execute("SELECT sql FROM sqlite_master WHERE type='table' AND name=?", (t,))
    create_sql = create[0][0] if create else None
    fks = set()
    for row in execute('PRAGMA foreign_key_list(%s)' % qn(t)):
        # id, seq, table, from, to, on_update, on_delete, match
        fks.add((row[3], row[2], row[4]))
    return {'columns': cols, 'indexes': indexes, 'checks': parse_checks(create_sql),
            'fks': fks, 'sql': create_sql}


def dump(execute, include_bookkeeping=False):
    return {t: dump_table(execute, t) for t in table_names(execute, include_bookkeeping)}


def index_atoms(tdump, named=()):
    """Multiset (as sorted list) of index atoms.  Names are kept only for
    user-named objects (`named`)."""
    atoms = []
    for ix in tdump['indexes']:
        name = ix['name'] if ix['name'] in named else None
        atoms.append((ix['unique'], ix['cols'], ix['where'], name))
    return sorted(atoms, key=repr)


def compare(actual, expected, named=()):
    """Mismatch atoms between two dumps: list of (table, kind, detail, side)
    with side in {'missing', 'extra'} (missing = expected but not present)."""
    atoms = []
    for t in sorted(set(actual) | set(expected)):
        if t not in actual:
            atoms.append((t, 'table', t, 'missing'))
            continue
        if t not in expected:
            atoms.append((t, 'table', t, 'extra'))
            continue
        a, e = actual[t], expected[t]
        for c in sorted(e['columns'] - a['columns']):
            atoms.append((t, 'column', c, 'missing'))
        for c in sorted(a['columns'] - e['columns']):
            atoms.append((t, 'column', c, 'extra'))
        ai, ei = index_atoms(a, named), index_atoms(e, named)
        rest = list(ai)
        for x in ei:
            if x in rest:
                rest.remove(x)
            else:
                atoms.append((t, 'index', x, 'missing'))
        for x in rest:
            atoms.append((t, 'index', x, 'extra'))
        ac = {(n if n in named else None, x) for n, x in a['checks']}
        ec = {(n if n in named else None, x) for n, x in e['checks']}
        for c in sorted(ec - ac, key=repr):
            atoms.append((t, 'check', c, 'missing'))
        for c in sorted(ac - ec, key=repr):
            atoms.append((t, 'check', c, 'extra'))
        for f in sorted(e['fks'] - a['fks']):
            atoms.append((t, 'fk', f, 'missing'))
        for f in sorted(a['fks'] - e['fks']):
            atoms.append((t, 'fk', f, 'extra'))
    return atoms


def raw_table_state(execute, t):
    """Byte-exact state of a table: its CREATE sql, its indexes' sql, rows."""
    create = execute("SELECT sql FROM sqlite_master WHERE type='table' AND name=?", (t,))
    idx = execute("SELECT name, sql FROM sqlite_master WHERE type='index' AND tbl_name=? "
                  "ORDER BY name", (t,))
    rows = execute('SELECT * FROM %s ORDER BY 1' % qn(t)) if create else []
    cols = [r[1] for r in execute('PRAGMA table_info(%s)' % qn(t))] if create else []
    return {'sql': create[0][0] if create else None, 'indexes': [tuple(r) for r in idx],
            'rows': [tuple(r) for r in rows], 'cols': cols}


def rows_of(execute, t):
    info = execute('PRAGMA table_info(%s)' % qn(t))
    cols = [r[1] for r in info]
    rows = execute('SELECT * FROM %s' % qn(t))
    return cols, [tuple(r) for r in rows]


def jsonable(x):
    if isinstance(x, (set, frozenset)):
        return sorted((jsonable(i) for i in x), key=repr)
    if isinstance(x, (list, tuple)):
        return [jsonable(i) for i in x]
    if isinstance(x, dict):
        return {str(k): jsonable(v) for k, v in x.items()}
    if isinstance(x, bytes):
        return x.decode('latin1')
    return x


def from_jsonable(d):
    """Inverse of jsonable() for dump() results (what the driver prints)."""
    out = {}
    for t, td in d.items():
        out[t] = {
            'columns': {tuple(c) for c in td['columns']},
            'indexes': [{'name': ix['name'], 'unique': ix['unique'],
                         'cols': tuple(tuple(c) for c in ix['cols']), 'where': ix['where'],
                         'auto': ix['auto'], 'sql': ix.get('sql')} for ix in td['indexes']],
            'checks': {tuple(c) for c in td['checks']},
            'fks': {tuple(f) for f in td['fks']},
            'sql': td.get('sql'),
        }
    return out
