"""Entry point executed inside a generated project (fresh interpreter):

    PYTHONPATH=<project>:/verif:/repo DJANGO_SETTINGS_MODULE=settings \
        python -m pbt.driver  < job.json

Performs the job's steps against the project's database(s) through the real
tool (Evolver API, management commands), records an interleaved trace of SQL
statements (connection.execute_wrapper) and django_evolution signals, and
prints one JSON document after the marker line.  See DESIGN.md 2.2.
"""
import io
import json
import os
import sys
import traceback

MARKER = '\n@@PBT-RESULT@@\n'

TRACE = []
FAULT = {'at': None, 'count': 0, 'active': False, 'scope_ok': True}


def is_change(sql):
    from pbt.inproc import is_change as f
    return f(sql)


def make_wrapper(alias):
    def wrapper(execute, sql, params, many, context):
        change = is_change(sql)
        if FAULT['active'] and change:
            FAULT['count'] += 1
            if FAULT['at'] is not None and FAULT['count'] == FAULT['at']:
                TRACE.append(['fault', alias, sql, _p(params)])
                from django.db.utils import OperationalError
                raise OperationalError('injected fault #%d' % FAULT['at'])
        TRACE.append(['sql', alias, sql, _p(params)])
        return execute(sql, params, many, context)
    return wrapper


def _p(params):
    if params is None:
        return None
    import datetime
    import decimal

    def one(x):
        if isinstance(x, (int, float, str, type(None))):
            return x
        if isinstance(x, decimal.Decimal):
            return str(x)                       # what Django's sqlite adapter stores
        if isinstance(x, (datetime.datetime, datetime.date)):
            return x.isoformat(' ') if isinstance(x, datetime.datetime) else x.isoformat()
        return repr(x)
    try:
        return [one(x) for x in params]
    except TypeError:
        return repr(params)


def install_recorders():
    from django.db import connections
    for alias in connections:
        conn = connections[alias]
        conn.execute_wrappers.append(make_wrapper(alias))
    from django_evolution import signals as S

    def rec(name):
        def receiver(sender=None, **kwargs):
            payload = {}
            if 'task' in kwargs:
                payload['app'] = getattr(kwargs['task'], 'app_label', None)
            if 'evolutions' in kwargs:
                payload['evolutions'] = [getattr(e, 'label', str(e)) for e in kwargs['evolutions']]
            if 'migration' in kwargs:
                m = kwargs['migration']
                payload['migration'] = [m.app_label, m.name]
            if 'app_label' in kwargs:
                payload['app'] = kwargs['app_label']
            if 'model_names' in kwargs:
                payload['model_names'] = list(kwargs['model_names'])
            if 'exception' in kwargs:
                e = kwargs['exception']
                payload['exception'] = [type(e).__name__, str(e)[:200], id(e)]
            payload['sender_db'] = getattr(sender, 'database_name', None)
            TRACE.append(['signal', name, payload])
        return receiver
    # the order computed by the dependency graph (C09 observes it directly)
    from django_evolution.utils import graph as G
    orig_get_ordered = G.DependencyGraph.get_ordered

    def get_ordered(self):
        result = orig_get_ordered(self)
        if FAULT.get('capture_graph'):
            TRACE.append(['graph', [n.key for n in result]])
        return result
    G.DependencyGraph.get_ordered = get_ordered
    keep = []
    for name in ('evolving', 'evolved', 'evolving_failed', 'applying_evolution',
                 'applied_evolution', 'applying_migration', 'applied_migration',
                 'creating_models', 'created_models'):
        r = rec(name)
        keep.append(r)
        getattr(S, name).connect(r, weak=False)
    return keep


def exc_info(e):
    chain = []
    cur = e
    seen = 0
    while cur is not None and seen < 5:
        chain.append([type(cur).__name__, str(cur)[:300]])
        cur = cur.__cause__ or cur.__context__
        seen += 1
    last = getattr(e, 'last_sql_statement', None)
    tb = traceback.extract_tb(e.__traceback__)
    frames = [f for f in tb if 'django_evolution' in f.filename]
    where = None
    if frames:
        fr = frames[-1]
        where = '%s:%s' % (fr.filename.split('django_evolution/')[-1], fr.name)
    return {'type': type(e).__name__, 'msg': str(e)[:500], 'chain': chain, 'where': where,
            'id': id(e),
            'last_sql_statement': [last[0], _p(last[1])] if last else None,
            'is_evolution_exception': _is_evo(e), 'is_command_error': _is_cmd(e)}


def _is_evo(e):
    from django_evolution.errors import EvolutionException
    return isinstance(e, EvolutionException)


def _is_cmd(e):
    from django.core.management.base import CommandError
    return isinstance(e, CommandError)


def run_step(step):
    from django.db import connections
    op = step['op']
    res = {'op': op, 'ok': True}
    start = len(TRACE)
    FAULT['at'] = step.get('fault_at')
    FAULT['capture_graph'] = bool(step.get('capture_graph'))
    FAULT['count'] = 0
    FAULT['active'] = True
    out, err = io.StringIO(), io.StringIO()
    try:
        if op == 'insert_rows':
            import sqlite3
            from pbt import evolvecase as EC, dbnorm
            path = connections[step.get('database', 'default')].settings_dict['NAME']
            conn = sqlite3.connect(path, isolation_level=None)
            try:
                EC.insert_rows(step['spec'], step['rows'], step.get('links') or {},
                               dbnorm.sqlite_exec(conn))
            finally:
                conn.close()
        elif op == 'evolve_api':
            from django_evolution.evolve import Evolver
            from django_evolution.compat.apps import get_app
            evolver = Evolver(database_name=step.get('database', 'default'),
                              hinted=step.get('hinted', False))
            if step.get('apps') is None:
                evolver.queue_evolve_all_apps()
            else:
                for label in step['apps']:
                    evolver.queue_evolve_app(get_app(label))
            if step.get('purge'):
                evolver.queue_purge_old_apps()
            for label in step.get('purge_apps') or ():
                evolver.queue_purge_app(label)
            res['evolution_required'] = evolver.get_evolution_required()
            res['can_simulate'] = evolver.can_simulate()
            d = evolver.diff_evolutions()
            res['diff_empty'] = d.is_empty()
            res['diff_text'] = str(d)[:500]
            # like the evolve command: evolve() is only called when something is required
            if step.get('execute', True) and (res['evolution_required'] or
                                              step.get('force', False)):
                evolver.evolve()
        elif op == 'evolver_info':
            from django_evolution.evolve import Evolver
            evolver = Evolver(database_name=step.get('database', 'default'))
            evolver.queue_evolve_all_apps()
            res['evolution_required'] = evolver.get_evolution_required()
            d = evolver.diff_evolutions()
            res['diff_empty'] = d.is_empty()
            res['diff_text'] = str(d)[:500]
            res['initial_diff_empty'] = evolver.initial_diff.is_empty()
        elif op == 'command':
            from django.core.management import call_command
            call_command(step['name'], *step.get('args', []), stdout=out, stderr=err,
                         **step.get('kwargs', {}))
        elif op == 'sql':
            cur = connections[step.get('database', 'default')].cursor()
            for s in step['statements']:
                cur.execute(s)
        else:
            raise ValueError('unknown op %r' % op)
    except SystemExit as e:
        res['ok'] = False
        res['exc'] = {'type': 'SystemExit', 'msg': str(e), 'chain': [], 'where': None,
                      'last_sql_statement': None, 'is_evolution_exception': False,
                      'is_command_error': False}
    except Exception as e:
        res['ok'] = False
        res['exc'] = exc_info(e)
        res['traceback'] = traceback.format_exc()[-1500:]
    finally:
        FAULT['active'] = False
        FAULT['at'] = None
    res['stdout'] = out.getvalue()
    res['stderr'] = err.getvalue()
    res['trace'] = TRACE[start:]
    res['n_change'] = sum(1 for t in res['trace'] if t[0] == 'sql' and is_change(t[2]))
    try:
        import django_evolution.management as mgmt
        res['evolve_lock'] = mgmt._evolve_lock
    except Exception:
        res['evolve_lock'] = None
    return res


def dump_database(alias):
    """State of one database, read through an independent sqlite3 connection."""
    import sqlite3
    from django.db import connections
    from pbt import dbnorm
    path = connections[alias].settings_dict['NAME']
    out = {'path': path}
    if not os.path.exists(path):
        out['missing'] = True
        return out
    conn = sqlite3.connect(path)
    try:
        ex = dbnorm.sqlite_exec(conn)
        norm = dbnorm.dump(ex)
        out['norm'] = dbnorm.jsonable(norm)
        out['tables'] = {}
        for t in dbnorm.table_names(ex, include_bookkeeping=True):
            out['tables'][t] = dbnorm.jsonable(dbnorm.raw_table_state(ex, t))
        names = set(dbnorm.table_names(ex, include_bookkeeping=True))
        out['evolutions'] = [list(r) for r in ex(
            'SELECT app_label, label, version_id FROM django_evolution ORDER BY id')] \
            if 'django_evolution' in names else None
        out['versions'] = [list(r) for r in ex(
            'SELECT id, signature FROM django_project_version ORDER BY id')] \
            if 'django_project_version' in names else None
        out['migrations'] = [list(r) for r in ex(
            'SELECT app, name FROM django_migrations ORDER BY id')] \
            if 'django_migrations' in names else None
        out['fk_check'] = [list(map(str, r)) for r in ex('PRAGMA foreign_key_check')]
    finally:
        conn.close()
    return out


def signature_check(alias):
    """Stored signature vs signature of the current models (in the process that
    has the models)."""
    from django_evolution.diff import Diff
    from django_evolution.models import Version
    from django_evolution.signature import ProjectSignature
    out = {}
    try:
        stored = Version.objects.using(alias).order_by('-pk')[0].signature
    except Exception as e:
        return {'error': repr(e)[:200]}
    current = ProjectSignature.from_database(alias)
    try:
        out['equal'] = bool(stored == current)
        d1 = Diff(stored, current)
        d2 = Diff(current, stored)
        out['diff_sc_empty'] = d1.is_empty(ignore_apps=False)
        out['diff_cs_empty'] = d2.is_empty(ignore_apps=False)
        out['diff_sc_empty_ignoring_apps'] = d1.is_empty(ignore_apps=True)
        out['diff_text'] = (str(d1) or str(d2))[:600]
        out['stored_apps'] = {}
        for app_sig in stored.app_sigs:
            out['stored_apps'][app_sig.app_id] = {
                'models': sorted(m.model_name for m in app_sig.model_sigs),
                'upgrade_method': app_sig.upgrade_method,
                'applied_migrations': sorted(app_sig.applied_migrations or [])
                if app_sig.applied_migrations is not None else None,
                'serialized': json.dumps(app_sig.serialize(), sort_keys=True, default=str),
            }
        out['current_apps'] = sorted(a.app_id for a in current.app_sigs)
    except Exception as e:
        out['error'] = repr(e)[:300]
    return out


def compact(res):
    """Keep signals and changing statements only (sweeps produce many runs)."""
    res = dict(res)
    res['trace'] = [t for t in res.get('trace', [])
                    if t[0] != 'sql' or is_change(t[2])]
    res.pop('traceback', None)
    return res


def _in_child(fn):
    """Run fn() in a forked child (observationally a fresh process that has
    finished importing the project); returns its JSON-able result."""
    import tempfile
    from django.db import connections
    for alias in connections:
        connections[alias].close()
    fd, path = tempfile.mkstemp(prefix='pbt_child_')
    os.close(fd)
    pid = os.fork()
    if pid == 0:
        code = 0
        try:
            out = fn()
            with open(path, 'w') as fh:
                json.dump(out, fh, default=str)
        except BaseException:
            with open(path, 'w') as fh:
                json.dump({'child_error': traceback.format_exc()[-2000:]}, fh)
            code = 1
        finally:
            os._exit(code)
    os.waitpid(pid, 0)
    try:
        with open(path) as fh:
            return json.load(fh)
    finally:
        os.unlink(path)


def fault_sweep(step):
    """For every changing statement k of the fault-free upgrade: pristine copy
    -> run with fault k -> dump -> fault-free retry in another child -> dump."""
    import shutil
    from django.db import connections
    aliases = step.get('dump', ['default'])
    paths = {a: connections[a].settings_dict['NAME'] for a in aliases}
    pristine = {a: paths[a] + '.pristine' for a in aliases}
    for a in aliases:
        for alias2 in connections:
            connections[alias2].close()
        shutil.copy(paths[a], pristine[a])

    def restore():
        for a in aliases:
            shutil.copy(pristine[a], paths[a])

    def snapshot():
        out = {}
        for a in aliases:
            connections[a].close()
            out[a] = dump_database(a)
            out[a]['sig_check'] = signature_check(a)
        return out

    def one(fault_at):
        upgrade = dict(step['upgrade'])
        upgrade['fault_at'] = fault_at
        r = compact(run_step(upgrade))
        return {'run': r, 'dump': snapshot()}

    result = {'before': _in_child(snapshot)}
    restore()
    base = _in_child(lambda: one(None))
    result['baseline'] = base
    if base.get('child_error'):
        return result
    n = base['run']['n_change']
    ks = list(range(1, n + 1))
    limit = step.get('max_faults')
    if limit and len(ks) > limit:
        # keep first, last and an even spread
        stride = max(1, len(ks) // limit)
        ks = sorted(set(ks[::stride] + [ks[0], ks[-1]]))
    result['n_change'] = n
    result['faults'] = []
    for k in ks:
        restore()
        failed = _in_child(lambda: one(k))
        retry = _in_child(lambda: one(None))
        result['faults'].append({'k': k, 'failed': failed, 'retry': retry})
    restore()
    for a in aliases:
        try:
            os.unlink(pristine[a])
        except OSError:
            pass
    return result


def main():
    job = json.loads(sys.stdin.read())
    result = {'steps': [], 'dumps': {}}
    try:
        import django
        django.setup()
        import logging
        logging.disable(logging.CRITICAL)
        import warnings
        warnings.simplefilter('ignore')
        keep = install_recorders()          # noqa: F841 (strong references)
        import django_evolution
        result['django_evolution_file'] = django_evolution.__file__
        for step in job.get('steps', []):
            if step['op'] == 'fault_sweep':
                result['sweep'] = fault_sweep(step)
                continue
            r = run_step(step)
            result['steps'].append(r)
            if not r['ok'] and step.get('stop_on_error', False):
                break
        from django.db import connections
        for alias in job.get('dump', ['default']):
            connections[alias].close()
            result['dumps'][alias] = dump_database(alias)
            if job.get('sig_check', True):
                result['dumps'][alias]['sig_check'] = signature_check(alias)
    except Exception:
        result['driver_error'] = traceback.format_exc()[-3000:]
    sys.stdout.write(MARKER)
    sys.stdout.write(json.dumps(result, default=str))
    sys.stdout.flush()


if __name__ == '__main__':
    main()
