"""Django bootstrap for the in-process harness (DESIGN.md section 2.1).

`setup()` configures Django with two in-memory SQLite databases and the five
empty harness apps pa..pe, always importing django_evolution from the working
tree of the repository (REPO, default /repo).
"""
import os
import sys
import warnings

VERIF = os.path.dirname(os.path.dirname(os.path.abspath(__file__)))
REPO = os.environ.get('VERIF_REPO', '/repo')
HARNESS_LABELS = ['pa', 'pb', 'pc', 'pd', 'pe']

_done = False


def setup(extra_apps=(), databases=None):
    global _done
    if _done:
        return
    _done = True
    for p in (os.path.join(VERIF, 'harness_apps'), REPO):
        if p in sys.path:
            sys.path.remove(p)
        sys.path.insert(0, p)
    import django
    from django.conf import settings
    if databases is None:
        databases = {
            'default': {'ENGINE': 'django.db.backends.sqlite3',
                        'NAME': ':memory:'},
            'aux': {'ENGINE': 'django.db.backends.sqlite3',
                    'NAME': ':memory:'},
        }
    settings.configure(
        DEBUG=False,
        DATABASES=databases,
        INSTALLED_APPS=['django.contrib.contenttypes', 'django_evolution'] +
        HARNESS_LABELS + list(extra_apps),
        USE_TZ=True,
        SECRET_KEY='x',
        DEFAULT_AUTO_FIELD='django.db.models.AutoField',
        LOGGING_CONFIG=None,
    )
    django.setup()
    import django_evolution
    assert os.path.realpath(django_evolution.__file__).startswith(
        os.path.realpath(REPO)), django_evolution.__file__
    import logging
    logging.disable(logging.CRITICAL)
    warnings.filterwarnings('ignore', message='.*index_together.*')
    warnings.filterwarnings('ignore', category=DeprecationWarning)
    warnings.filterwarnings('ignore', category=PendingDeprecationWarning)


def reset_databases(aliases=('default', 'aux')):
    """Really drop the in-memory databases (see DESIGN 2.1 step 1)."""
    from django.db import connections
    from django.db.backends.base.base import BaseDatabaseWrapper
    for alias in aliases:
        conn = connections[alias]
        try:
            if conn.connection is not None:
                # leave any atomic state behind
                conn.in_atomic_block = False
                conn.savepoint_ids = []
                conn.needs_rollback = False
                conn.atomic_blocks = []
                BaseDatabaseWrapper.close(conn)
        finally:
            conn.connection = None
            conn.in_atomic_block = False
            conn.needs_rollback = False
            conn.savepoint_ids = []
            conn.atomic_blocks = []
            conn.closed_in_transaction = False
            conn.execute_wrappers[:] = []
            conn.run_on_commit = []


def reset_registry():
    """Remove all generated models of pa..pe from the global registry."""
    from django.apps import apps
    for label in HARNESS_LABELS:
        apps.all_models[label].clear()
        cfg = apps.app_configs.get(label)
        if cfg is not None:
            cfg.models = apps.all_models[label]
    apps.clear_cache()
    try:
        from django_evolution.utils.models import clear_model_rel_tree
        clear_model_rel_tree()
    except Exception:
        pass


def reset_all():
    reset_databases()
    reset_registry()
