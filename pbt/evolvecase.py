"""Shared core of C01/C02/C11: generate a (spec, sequence, rows) case, run it
through production code, compare with the reference model.

Case format (JSON):
  {'mode': 'walk'|'hinted', 'spec': <ProjectSpec>, 'seq': [<mutation>...],
   'rows': {'<model uid>': [{'<field uid>'|'id': value}...]},
   'links': {'<m2m field uid>': [[from_pk, to_pk]...]}}
For mode 'hinted' the sequence is the list of *edits* that derive the target
model set; the mutations executed are Diff(start, target).evolution().
"""
import copy
import datetime
import decimal
import sqlite3
import traceback

from hypothesis import strategies as st

from . import specs as S
from . import refmodel as R
from . import mutgen


# ---------------------------------------------------------------------------
# rows: generation
# ---------------------------------------------------------------------------

def spec_trail(spec, seq):
    """[spec0, spec1, ...] after each mutation (reference model)."""
    trail = [spec]
    cur = spec
    for m in seq:
        try:
            cur = R.apply(cur, m, strict=False)
        except R.RefInvalid:
            pass        # (histories: a later-introduced model may reuse a freed name)
        trail.append(cur)
    return trail


def ever_unique_uids(trail):
    out = set()
    for sp in trail:
        for a, n, m in S.iter_models(sp):
            for f in m['fields']:
                if f['unique'] or f['kind'] == 'OneToOne':
                    out.add(f['uid'])
            groups = [t for t in m['unique_together']]
            groups += [c['fields'] for c in m['constraints'] if c['type'] == 'unique']
            for g in groups:
                for fn in g:
                    f = S.get_field(m, fn)
                    if f is not None:
                        out.add(f['uid'])
    return out


CHAR_VALUES = ['', 'x', "it's", '50%', '%s', 'a"b', 'back\\slash', 'é', 'NULL', ' sp ']
TEXT_VALUES = ['', 'text', "it's 100% \"q\"", '%s %d', 'line\nbreak']
INT_VALUES = [0, 1, -1, 42, 2147483647, -2147483648]
BIG_VALUES = [0, -1, 9223372036854775807, -9223372036854775808, 5000000000]
POS_VALUES = [0, 1, 42, 2147483647]
DEC_VALUES = ['0', '1.5', '-2.25', '10', '0.01']
DT_VALUES = ['2020-01-02 03:04:05', '1999-12-31 23:59:59.123456', '2038-01-19 03:14:08']


@st.composite
def value_for(draw, f, idx, distinct):
    kind = f['kind']
    if f['null'] and draw(st.integers(0, 3)) == 0:
        return None
    if kind == 'Char':
        ml = f['max_length'] or 20
        if distinct:
            return ('u%d' % idx)[:ml] if ml >= 2 else str(idx)[:ml]
        return draw(st.sampled_from(CHAR_VALUES))[:ml]
    if kind == 'Text':
        return draw(st.sampled_from(TEXT_VALUES)) if not distinct else 't%d' % idx
    if kind == 'Integer':
        return 1000 + idx if distinct else draw(st.sampled_from(INT_VALUES))
    if kind == 'BigInteger':
        return 5000000000 + idx if distinct else draw(st.sampled_from(BIG_VALUES))
    if kind == 'PositiveInteger':
        return 1000 + idx if distinct else draw(st.sampled_from(POS_VALUES))
    if kind == 'Boolean':
        return draw(st.sampled_from([0, 1]))
    if kind == 'Decimal':
        return draw(st.sampled_from(DEC_VALUES)) if not distinct else '%d.5' % idx
    if kind == 'DateTime':
        return draw(st.sampled_from(DT_VALUES)) if not distinct else '2020-01-0%d 00:00:00' % (idx % 9 + 1)
    raise ValueError(kind)


@st.composite
def rows_for(draw, spec, seq, max_rows=6):
    """Rows for the start spec that never make a legal evolution fail for data
    reasons (DESIGN 3.3).  Returns (rows, links)."""
    trail = spec_trail(spec, seq)
    distinct = ever_unique_uids(trail)
    counts = {}
    models = list(S.iter_models(spec))
    for a, n, m in models:
        counts[m['uid']] = draw(st.integers(0, max_rows))
        # models whose relation target is not (yet) in this spec get no rows
        if any(f['target'] and S.get_model(spec, *f['target']) is None for f in m['fields']):
            counts[m['uid']] = 0
    # FK null->non-null changes / non-null FKs need target rows
    changed = True
    guard = 0
    while changed and guard < 10:
        changed = False
        guard += 1
        for a, n, m in models:
            for f in m['fields']:
                if f['kind'] in ('ForeignKey', 'OneToOne') and not f['null']:
                    tgt = S.get_model(spec, *f['target'])
                    if tgt is None:
                        continue
                    if counts[m['uid']] > 0 and counts[tgt['uid']] == 0:
                        if tgt['uid'] == m['uid']:
                            continue
                        counts[m['uid']] = 0
                        changed = True
    # a ChangeField(null=False, initial=1) on a FK needs target pk 1
    for i, mut in enumerate(seq):
        if mut['kind'] == 'ChangeField' and mut['attrs'].get('null') is False:
            m = S.get_model(trail[i], mut['app'], mut['model'])
            f = S.get_field(m, mut['name']) if m else None
            if f and f['kind'] in ('ForeignKey', 'OneToOne'):
                tgt = S.get_model(trail[i], *f['target'])
                if tgt is not None and tgt['uid'] in counts and counts[tgt['uid']] == 0:
                    if m['uid'] in counts:
                        counts[m['uid']] = 0
    rows = {}
    links = {}
    for a, n, m in models:
        out = []
        nrows = counts[m['uid']]
        for i in range(nrows):
            row = {'id': i + 1}
            for f in m['fields']:
                if f['kind'] == 'ManyToMany':
                    continue
                if f['kind'] in ('ForeignKey', 'OneToOne'):
                    tgt = S.get_model(spec, *f['target'])
                    tn = counts[tgt['uid']]
                    if f['null'] and (tn == 0 or draw(st.integers(0, 3)) == 0):
                        row[f['uid']] = None
                    elif f['uid'] in distinct or f['kind'] == 'OneToOne':
                        # distinct targets: row i -> target i+1 if it exists
                        if i + 1 <= tn:
                            row[f['uid']] = i + 1
                        elif f['null']:
                            row[f['uid']] = None
                        else:
                            row = None
                            break
                    elif tn == 0:
                        # (the target lost its rows in the adjustments above)
                        row = None
                        break
                    else:
                        row[f['uid']] = draw(st.integers(1, tn))
                else:
                    row[f['uid']] = draw(value_for(f, i, f['uid'] in distinct))
            if row is not None:
                out.append(row)
        rows[m['uid']] = out
    # rows dropped above may have been referenced: no dangling foreign keys
    changed = True
    while changed:
        changed = False
        ids = {m['uid']: {r['id'] for r in rows.get(m['uid'], [])} for _a, _n, m in models}
        for a, n, m in models:
            keep = []
            for r in rows.get(m['uid'], []):
                ok = True
                for f in m['fields']:
                    if f['kind'] in ('ForeignKey', 'OneToOne') and r.get(f['uid']) is not None:
                        tgt = S.get_model(spec, *f['target'])
                        if tgt is None or r[f['uid']] not in ids.get(tgt['uid'], ()):
                            if f['null']:
                                r[f['uid']] = None
                            else:
                                ok = False
                            changed = True
                if ok:
                    keep.append(r)
            rows[m['uid']] = keep
    for a, n, m in models:
        for f in m['fields']:
            if f['kind'] == 'ManyToMany':
                tgt = S.get_model(spec, *f['target'])
                if tgt is None:
                    links[f['uid']] = []
                    continue
                nf, nt = len(rows[m['uid']]), len(rows[tgt['uid']])
                pairs = []
                if nf and nt:
                    k = draw(st.integers(0, 3))
                    for _ in range(k):
                        p = [rows[m['uid']][draw(st.integers(0, nf - 1))]['id'],
                             rows[tgt['uid']][draw(st.integers(0, nt - 1))]['id']]
                        if p not in pairs:
                            pairs.append(p)
                links[f['uid']] = pairs
    return rows, links


# ---------------------------------------------------------------------------
# case strategy
# ---------------------------------------------------------------------------

@st.composite
def cases(draw, feats=None, opts=None, mode=None, max_rows=6, with_rows=True):
    feats = feats or S.Features()
    avoid = opts.avoid if opts is not None else ()
    spec = mutgen.ensure_uids(draw(S.project_specs(feats)))
    if 'index_cover' in avoid:
        for _a, _n, _m in S.iter_models(spec):
            S.strip_index_overlap(_m)
    mode = mode or draw(st.sampled_from(['walk', 'walk', 'hinted']))
    if mode == 'hinted':
        seq, _final = draw(mutgen.edited_targets(spec, feats, avoid=avoid))
    else:
        seq, _final = draw(mutgen.walks(spec, feats, opts))
    if with_rows:
        rows, links = draw(rows_for(spec, seq, max_rows))
    else:
        rows, links = {}, {}
    return {'mode': mode, 'spec': spec, 'seq': seq, 'rows': rows, 'links': links}


# ---------------------------------------------------------------------------
# reference evolution of rows
# ---------------------------------------------------------------------------

_scratch = None


def sqlite_store(decl_type, value):
    """What SQLite stores when `value` is inserted into a column declared
    `decl_type` (SQLite is trusted; the rebuild SQL is not)."""
    global _scratch
    if _scratch is None:
        _scratch = sqlite3.connect(':memory:')
    if isinstance(value, decimal.Decimal):
        value = str(value)
    if isinstance(value, bool):
        value = int(value)
    if isinstance(value, datetime.datetime):
        value = value.isoformat(' ')
    _scratch.execute('DROP TABLE IF EXISTS t')
    _scratch.execute('CREATE TABLE t (v %s)' % decl_type)
    _scratch.execute('INSERT INTO t VALUES (?)', (value,))
    return _scratch.execute('SELECT v FROM t').fetchone()[0]


def sqlite_eval(literal):
    global _scratch
    if _scratch is None:
        _scratch = sqlite3.connect(':memory:')
    return _scratch.execute('SELECT %s' % literal).fetchone()[0]


DECL = {'Char': 'varchar(%(max_length)s)', 'Text': 'text', 'Integer': 'integer',
        'BigInteger': 'bigint', 'PositiveInteger': 'integer unsigned', 'Boolean': 'bool',
        'Decimal': 'decimal', 'DateTime': 'datetime', 'ForeignKey': 'integer',
        'OneToOne': 'integer'}


def decl_type(f):
    return DECL[f['kind']] % f


def initial_stored(f, init):
    """Stored form of a mutation-level initial for field spec f."""
    from . import render
    if isinstance(init, dict) and 'callable' in init:
        return sqlite_store(decl_type(f), sqlite_eval(init['callable']))
    return sqlite_store(decl_type(f), render.initial_value(init))


def evolve_rows(spec, seq, rows, links):
    """Reference evolution of rows/links through the sequence."""
    rows = copy.deepcopy(rows)
    links = copy.deepcopy(links)
    cur = spec
    for mut in seq:
        k = mut['kind']
        nxt = R.apply(cur, mut, strict=False)
        if k == 'AddField':
            m = S.get_model(cur, mut['app'], mut['model'])
            f = mut['field']
            if f['kind'] == 'ManyToMany':
                links[f['uid']] = []
            else:
                val = None
                if mut.get('initial') is not None:
                    val = initial_stored(f, mut['initial'])
                for r in rows.get(m['uid'], []):
                    r[f['uid']] = val
        elif k == 'DeleteField':
            m = S.get_model(cur, mut['app'], mut['model'])
            f = S.get_field(m, mut['name'])
            if f['kind'] == 'ManyToMany':
                links.pop(f['uid'], None)
            else:
                for r in rows.get(m['uid'], []):
                    r.pop(f['uid'], None)
        elif k == 'ChangeField':
            m = S.get_model(cur, mut['app'], mut['model'])
            f = S.get_field(m, mut['name'])
            nf = S.get_field(S.get_model(nxt, mut['app'], mut['model']), mut['name'])
            if mut.get('field_kind') or 'max_length' in mut['attrs'] or \
                    'max_digits' in mut['attrs'] or 'decimal_places' in mut['attrs']:
                for r in rows.get(m['uid'], []):
                    if r.get(f['uid']) is not None:
                        r[f['uid']] = sqlite_store(decl_type(nf), r[f['uid']])
            if mut['attrs'].get('null') is False and f['null'] and mut.get('initial') is not None:
                val = initial_stored(nf, mut['initial'])
                for r in rows.get(m['uid'], []):
                    if r.get(f['uid']) is None:
                        r[f['uid']] = val
        elif k == 'SQLMutation' and mut.get('backfill'):
            bf = mut['backfill']
            for r in rows.get(bf['model'], []):
                if bf['field'] in r and r[bf['field']] is None:
                    r[bf['field']] = bf['value']
        elif k == 'DeleteModel':
            m = S.get_model(cur, mut['app'], mut['model'])
            rows.pop(m['uid'], None)
            for f in m['fields']:
                if f['kind'] == 'ManyToMany':
                    links.pop(f['uid'], None)
        elif k == 'DeleteApplication':
            for n, m in cur['apps'][mut['app']]['models'].items():
                rows.pop(m['uid'], None)
                for f in m['fields']:
                    if f['kind'] == 'ManyToMany':
                        links.pop(f['uid'], None)
        cur = nxt
    return rows, links


def evolve_rows_hinted(spec, final, seq, rows, links):
    """Reference rows for the hinted path: the hint is computed from (start,
    target) only, so what matters is each field's start and final definition.
    The developer-supplied initial (for placeholders) is the last initial the
    edit sequence gave for that field."""
    rows = copy.deepcopy(rows)
    links = copy.deepcopy(links)
    last_initial = {}
    cur = spec
    for mut in seq:
        if mut['kind'] == 'AddField' and mut.get('initial') is not None:
            last_initial[mut['field']['uid']] = mut['initial']
        if mut['kind'] == 'ChangeField' and mut.get('initial') is not None:
            f0 = S.get_field(S.get_model(cur, mut['app'], mut['model']), mut['name'])
            last_initial[f0['uid']] = mut['initial']
        cur = R.apply(cur, mut, strict=False)
    start_fields = {}
    for a, n, m in S.iter_models(spec):
        for f in m['fields']:
            start_fields[f['uid']] = f
    final_models = {m['uid']: m for a, n, m in S.iter_models(final)}
    out_rows = {}
    for a, n, m0 in S.iter_models(spec):
        m1 = final_models.get(m0['uid'])
        if m1 is None:
            continue
        new = []
        for r in rows.get(m0['uid'], []):
            d = {'id': r['id']}
            for f in m1['fields']:
                if f['kind'] == 'ManyToMany':
                    continue
                f0 = start_fields.get(f['uid'])
                if f0 is None:
                    # the hint is computed from names: a field that was replaced by another
                    # definition under the same name is a ChangeField(field_type=...) for
                    # it, and the stored values stay (converted by the column's affinity)
                    f0 = S.get_field(m0, f['name'])
                if f0 is None or f0['kind'] == 'ManyToMany':
                    # added column: initial only if the hint had to ask for one
                    if not f['null'] and f['uid'] in last_initial:
                        d[f['uid']] = initial_stored(f, last_initial[f['uid']])
                    else:
                        d[f['uid']] = None
                else:
                    v = r.get(f0['uid'])
                    if v is not None and (f0['kind'] != f['kind'] or
                                          any(f0[k] != f[k] for k in
                                              ('max_length', 'max_digits', 'decimal_places'))):
                        v = sqlite_store(decl_type(f), v)
                    if v is None and f0['null'] and not f['null'] and f['uid'] in last_initial:
                        v = initial_stored(f, last_initial[f['uid']])
                    d[f['uid']] = v
            new.append(d)
        out_rows[m0['uid']] = new
    out_links = {}
    for a, n, m1 in S.iter_models(final):
        for f in m1['fields']:
            if f['kind'] == 'ManyToMany':
                f0 = start_fields.get(f['uid'])
                out_links[f['uid']] = links.get(f['uid'], []) if f0 is not None and \
                    f0['kind'] == 'ManyToMany' else []
    return out_rows, out_links


# ---------------------------------------------------------------------------
# running a case
# ---------------------------------------------------------------------------

def insert_rows(spec, rows, links, execute):
    """All rows in one transaction (foreign keys are DEFERRABLE INITIALLY
    DEFERRED, so forward references are fine inside it)."""
    execute('BEGIN')
    try:
        _insert_rows(spec, rows, links, execute)
    except Exception:
        execute('ROLLBACK')
        raise
    execute('COMMIT')


def _insert_rows(spec, rows, links, execute):
    for a, n, m in S.iter_models(spec):
        t = S.table_of(a, m)
        for r in rows.get(m['uid'], []):
            cols = [S.pk_of(m)]
            vals = [r['id']]
            for f in m['fields']:
                if f['kind'] == 'ManyToMany':
                    continue
                cols.append(S.column_of(f))
                vals.append(r.get(f['uid']))
            execute('INSERT INTO "%s" (%s) VALUES (%s)' % (
                t, ', '.join('"%s"' % c for c in cols), ', '.join('?' for _ in cols)), tuple(vals))
    for a, n, m in S.iter_models(spec):
        for f in m['fields']:
            if f['kind'] == 'ManyToMany':
                t = S.m2m_table_of(a, m, f)
                info = execute('PRAGMA table_info("%s")' % t)
                cols = [r[1] for r in info]
                for i, (x, y) in enumerate(links.get(f['uid'], [])):
                    execute('INSERT INTO "%s" ("%s", "%s", "%s") VALUES (?, ?, ?)'
                            % (t, cols[0], cols[1], cols[2]), (i + 1, x, y))


def same_value(kind, actual, expected):
    if actual is None or expected is None:
        return actual is None and expected is None
    try:
        if kind == 'Decimal':
            return decimal.Decimal(str(actual)) == decimal.Decimal(str(expected))
        if kind == 'Boolean':
            return int(actual) == int(expected)
        if kind == 'DateTime':
            def parse(v):
                d = datetime.datetime.fromisoformat(str(v).replace('T', ' '))
                if d.tzinfo is not None:
                    d = d.astimezone(datetime.timezone.utc).replace(tzinfo=None)
                return d
            return parse(actual) == parse(expected)
    except Exception:
        return actual == expected
    return actual == expected and type(actual) == type(expected)


def read_rows_from_tables(final_spec, tables):
    """read_rows() over the driver's dump format {table: {'cols': [...], 'rows': [...]}}."""
    def execute(sql, params=()):
        import re
        m = re.match(r'PRAGMA table_info\("(.+)"\)', sql)
        if m:
            return [(i, c) for i, c in enumerate(tables[m.group(1)]['cols'])]
        m = re.match(r'SELECT \* FROM "(.+)"', sql)
        return [tuple(r) for r in tables[m.group(1)]['rows']]
    return read_rows(final_spec, execute, set(tables))


def read_rows(final_spec, execute, existing_tables):
    """Rows/links of the evolved database keyed by uid, via the final spec."""
    rows = {}
    links = {}
    problems = []
    for a, n, m in S.iter_models(final_spec):
        t = S.table_of(a, m)
        if t not in existing_tables:
            problems.append(['rows', 'table_missing', t])
            continue
        info = execute('PRAGMA table_info("%s")' % t)
        cols = [r[1] for r in info]
        data = execute('SELECT * FROM "%s"' % t)
        colmap = {S.pk_of(m): 'id'}
        for f in m['fields']:
            if f['kind'] != 'ManyToMany':
                colmap[S.column_of(f)] = f['uid']
        out = []
        for r in data:
            d = {}
            for c, v in zip(cols, r):
                if c in colmap:
                    d[colmap[c]] = v
            out.append(d)
        rows[m['uid']] = out
        for f in m['fields']:
            if f['kind'] == 'ManyToMany':
                mt = S.m2m_table_of(a, m, f)
                if mt not in existing_tables:
                    problems.append(['rows', 'm2m_table_missing', mt])
                    continue
                data = execute('SELECT * FROM "%s"' % mt)
                links[f['uid']] = sorted([r[1], r[2]] for r in data)
    return rows, links, problems


def compare_rows(final_spec, actual_rows, actual_links, exp_rows, exp_links):
    atoms = []
    kinds = {}
    for a, n, m in S.iter_models(final_spec):
        for f in m['fields']:
            kinds[f['uid']] = f['kind']
    for a, n, m in S.iter_models(final_spec):
        uid = m['uid']
        if uid not in actual_rows:
            continue
        exp = {r['id']: r for r in exp_rows.get(uid, [])}
        act = {r.get('id'): r for r in actual_rows[uid]}
        if len(act) != len(actual_rows[uid]):
            atoms.append(['rows', 'duplicate_pk', uid])
        for pk in sorted(set(exp) - set(act)):
            atoms.append(['rows', 'row_lost', uid, pk])
        for pk in sorted(set(act) - set(exp), key=repr):
            atoms.append(['rows', 'row_gained', uid, pk])
        for pk in sorted(set(exp) & set(act)):
            for fu, ev in exp[pk].items():
                if fu == 'id':
                    continue
                if fu not in act[pk]:
                    atoms.append(['rows', 'column_unreadable', uid, fu])
                    continue
                av = act[pk][fu]
                if not same_value(kinds.get(fu), av, ev):
                    atoms.append(['rows', 'value_changed', uid, fu, repr(ev), repr(av)])
        for f in m['fields']:
            if f['kind'] == 'ManyToMany' and f['uid'] in actual_links:
                e = sorted(exp_links.get(f['uid'], []))
                if e != actual_links[f['uid']]:
                    atoms.append(['rows', 'links_changed', f['uid'], repr(e),
                                  repr(actual_links[f['uid']])])
    return atoms


def exception_atom(e, phase):
    tb = traceback.extract_tb(e.__traceback__)
    frames = [f for f in tb if 'django_evolution' in f.filename]
    where = None
    if frames:
        fr = frames[-1]
        where = '%s:%s' % (fr.filename.split('django_evolution/')[-1], fr.name)
    return ['exception', phase, type(e).__name__, where, str(e)[:200]]


def replace_placeholders(mutations, initials):
    """Fill NullFieldInitialCallback placeholders with developer-supplied
    values (what the hint tells the developer to do)."""
    from django_evolution.placeholders import BasePlaceholder
    n = 0
    for m in mutations:
        init = getattr(m, 'initial', None)
        if isinstance(init, BasePlaceholder):
            key = (m.model_name, m.field_name)
            m.initial = initials.get(key, 0)
            n += 1
    return n


def hinted_initials(spec, seq):
    """(Model, field) -> python initial for the hinted path, taken from the
    edit sequence (so that the reference row evolution knows it)."""
    from . import render
    out = {}
    for mut in seq:
        if mut['kind'] == 'AddField' and mut.get('initial') is not None:
            out[(mut['model'], mut['field']['name'])] = render.initial_value(mut['initial'])
        if mut['kind'] == 'ChangeField' and mut.get('initial') is not None:
            out[(mut['model'], mut['name'])] = render.initial_value(mut['initial'])
    return out


def run_case(case, want_rows=True, alias='default', batch=True):
    """Execute a case.  Returns a dict with:
      rejected, exception atoms, schema atoms, untouched atoms, row atoms,
      sigdiff atoms, labels, n_change, rebuilt tables, final_spec, traces.
    """
    from . import env, inproc, dbnorm, render
    env.setup()
    from django_evolution.errors import SimulationFailure
    res = {'rejected': None, 'atoms': [], 'labels': [], 'n_change': 0}
    spec = mutgen.ensure_uids(copy.deepcopy(case['spec']))
    seq = mutgen.ensure_seq_uids(case['seq'])
    try:
        R.validate(spec)
        trail = []
        cur = spec
        for m in seq:
            cur = R.apply(cur, m, strict=True)
            trail.append(cur)
        final = cur
    except (R.RefInvalid, KeyError, TypeError, AttributeError) as e:
        res['rejected'] = 'ref_invalid:%s' % str(e)[:40]
        return res
    res['final_spec'] = final
    # data must let a legal evolution succeed (DESIGN 3.3): values of a column that is
    # unique at any point must be distinct (the shrinker may otherwise simplify a field
    # into one that holds duplicates)
    uniq = ever_unique_uids([spec] + trail)
    for _muid, rws in (case.get('rows') or {}).items():
        seen = {}
        for r in rws:
            for k, v in r.items():
                if k in uniq and v is not None:
                    if v in seen.setdefault(k, set()):
                        res['rejected'] = 'rows_invalid:duplicate value in a unique column'
                        return res
                    seen[k].add(v)
    model_map, sig = inproc.start_case(spec, alias)
    ex = dbnorm.django_exec(alias)
    rows = case.get('rows') or {}
    links = case.get('links') or {}
    try:
        insert_rows(spec, rows, links, ex)
    except sqlite3.Error as e:
        res['rejected'] = 'rows_invalid:%s' % str(e)[:60]
        return res
    start_dump = dbnorm.dump(ex)
    start_raw = {t: dbnorm.raw_table_state(ex, t) for t in start_dump}
    trace = inproc.Trace()
    res['trace'] = trace

    if case['mode'] == 'hinted':
        from django_evolution.diff import Diff
        target_map = inproc.register_global(final)
        target_sig = render.project_sig(target_map, apps=sorted(final['apps']))
        try:
            diff = Diff(sig, target_sig)
            hinted = diff.evolution()
        except Exception as e:
            res['atoms'].append(exception_atom(e, 'hint'))
            return res
        initials = hinted_initials(spec, seq)
        try:
            res['hinted'] = {app: [str(m) for m in muts] for app, muts in hinted.items()}
        except Exception:
            res['hinted'] = None        # rendering hints as text is C13's subject
        try:
            for app, muts in hinted.items():
                replace_placeholders(muts, initials)
                if batch:
                    inproc.run_objects(sig, app, muts, alias, trace)
                else:
                    for one in muts:
                        inproc.run_objects(sig, app, [one], alias, trace)
        except SimulationFailure as e:
            res['atoms'].append(['hint_rejected', str(e)[:200]])
            return res
        except Exception as e:
            res['atoms'].append(exception_atom(e, 'execute'))
            res['failed_sql'] = getattr(e, 'last_sql_statement', None)
            return res
    else:
        try:
            inproc.simulate_sequence(sig, seq, alias)
        except SimulationFailure as e:
            res['rejected'] = 'simulation:%s' % str(e)[:60]
            return res
        except Exception as e:
            res['atoms'].append(exception_atom(e, 'simulate'))
            return res
        try:
            inproc.run_sequence(sig, seq, alias, one_at_a_time=not batch, trace=trace)
        except Exception as e:
            res['atoms'].append(exception_atom(e, 'execute'))
            res['failed_sql'] = getattr(e, 'last_sql_statement', None)
            return res
    res['n_change'] = trace.n_change
    res['rebuilds'] = inproc.rebuild_counts(trace.statements)
    res['final_sig'] = sig

    actual = dbnorm.dump(ex)
    res['actual_dump'] = actual
    fresh, fresh_map = inproc.fresh_dump(final, 'aux')
    res['fresh_dump'] = fresh
    res['start_dump'] = start_dump
    named = S.used_names(final)
    for t, kind, detail, side in dbnorm.compare(actual, fresh, named):
        res['atoms'].append(['schema', t, kind, dbnorm.jsonable(detail), side])

    # untouched tables: byte-identical
    touched = set()
    cur = spec
    for m in seq:
        touched |= R.touched_models(cur, m)
        cur = R.apply(cur, m, strict=False)
    start_tables = S.all_tables(spec)
    for t, (a, n, fname) in start_tables.items():
        if (a, n) in touched:
            continue
        if fname is not None:
            tm = S.get_model(spec, a, n)
            tf = S.get_field(tm, fname)
            if tuple(tf['target']) in touched:
                continue
        now = dbnorm.raw_table_state(ex, t)
        if now != start_raw.get(t):
            res['atoms'].append(['untouched', t, 'changed'])

    # signature cross-check (routed to C05 buckets by the property modules)
    try:
        from django_evolution.diff import Diff
        fresh_sig = render.project_sig(fresh_map, apps=sorted(final['apps']))
        for app_sig in list(sig.app_sigs):
            if fresh_sig.get_app_sig(app_sig.app_id) is None and not list(app_sig.model_sigs):
                pass
        d1 = Diff(sig, fresh_sig)
        if not d1.is_empty(ignore_apps=True):
            res['sigdiff'] = str(d1)[:300]
    except Exception as e:
        res['sigdiff'] = 'diff failed: %r' % e

    # rows
    if want_rows:
        try:
            if case['mode'] == 'hinted':
                exp_rows, exp_links = evolve_rows_hinted(spec, final, seq, rows, links)
            else:
                exp_rows, exp_links = evolve_rows(spec, seq, rows, links)
            act_rows, act_links, problems = read_rows(final, ex, set(actual))
            res['row_atoms'] = compare_rows(final, act_rows, act_links, exp_rows, exp_links)
            res['fk_check'] = [tuple(r) for r in ex('PRAGMA foreign_key_check')]
        except Exception as e:
            res['row_atoms'] = [['rows', 'oracle_error', repr(e)[:200]]]
    return res


def case_labels(case, res=None):
    labs = set()
    spec, seq = case['spec'], case['seq']
    labs.add('mode:' + case['mode'])
    if len(spec['apps']) > 1:
        labs.add('two_apps')
    for a, n, m in S.iter_models(spec):
        for p in ('unique_together', 'index_together', 'indexes', 'constraints'):
            if m[p]:
                labs.add('meta:' + p)
        if any(ix.get('condition') for ix in m['indexes']):
            labs.add('meta:partial_index')
        if m['db_table']:
            labs.add('db_table')
        for f in m['fields']:
            labs.add('field:' + f['kind'])
            if f['db_column']:
                labs.add('db_column')
            if f['target'] and f['target'][0] != a:
                labs.add('cross_app_relation')
    for mut in seq:
        labs.add('mut:' + mut['kind'])
        if mut['kind'] == 'ChangeField' and mut.get('field_kind'):
            labs.add('mut:type_change')
        if mut['kind'] == 'AddField' and mut['field']['kind'] == 'ManyToMany':
            labs.add('mut:add_m2m')
        if mut['kind'] in ('AddField', 'ChangeField') and isinstance(mut.get('initial'), dict) \
                and 'callable' in mut['initial']:
            labs.add('callable_initial')
    if any(case.get('rows', {}).values()):
        labs.add('has_rows')
    if res is not None and res.get('rebuilds'):
        labs.add('rebuilt_tables:%d' % min(3, len(res['rebuilds'])))
    return sorted(labs)
