"""Explainers for known findings (DESIGN.md section 6).

An explainer is a predicate over (case, outcome, atoms) that removes exactly
the atoms its root cause accounts for, and only when its trigger is present in
the case.  known_findings.json entries with status "open" name one explainer
each; entries with status "fixed" have none (the check passes only because the
tree is repaired).
"""

EXPLAINERS = {}


def explainer(fn):
    EXPLAINERS[fn.__name__] = fn
    return fn


# ---------------------------------------------------------------------------
# helpers
# ---------------------------------------------------------------------------

def _trail(case):
    from . import refmodel as R
    from . import mutgen
    import copy
    spec = mutgen.ensure_uids(copy.deepcopy(case['spec']))
    trail = [spec]
    mutgen.ensure_seq_uids(case['seq'])
    for m in case['seq']:
        try:
            spec = R.apply(spec, m, strict=False)
        except R.RefInvalid:
            pass        # the tool accepted what the reference model would not: no-op here
        trail.append(spec)
    return trail


def _table_history(trail):
    """final table name -> set of every name that model's table had."""
    from . import specs as S
    names = {}
    for sp in trail:
        for a, n, m in S.iter_models(sp):
            names.setdefault(m['uid'], set()).add(S.table_of(a, m))
    out = {}
    for a, n, m in S.iter_models(trail[-1]):
        out[S.table_of(a, m)] = names.get(m['uid'], set())
    return out


def _meta_derived(final_spec):
    """table -> {'index': [[unique, cols, name]...], 'check': [name|col...]}
    for everything that derives from Meta options or PositiveInteger."""
    from . import specs as S
    out = {}
    for a, n, m in S.iter_models(final_spec):
        t = S.table_of(a, m)
        idx, chk = [], []

        def cols_of(names):
            res = []
            for nm in names:
                desc = nm.startswith('-')
                f = S.get_field(m, nm.lstrip('-'))
                res.append([S.column_of(f) if f else nm, desc])
            return res
        for tup in m['unique_together']:
            idx.append([True, cols_of(tup), None])
        for tup in m['index_together']:
            idx.append([False, cols_of(tup), None])
        for ix in m['indexes']:
            idx.append([False, cols_of(ix['fields']), ix.get('name')])
        for c in m['constraints']:
            if c['type'] == 'unique':
                idx.append([True, cols_of(c['fields']), c['name']])
            else:
                chk.append(c['name'])
        for f in m['fields']:
            if f['kind'] == 'PositiveInteger':
                chk.append('%s >= 0' % S.column_of(f))
        out[t] = {'index': idx, 'check': chk}
    return out


# ---------------------------------------------------------------------------
# F-C01-1
# ---------------------------------------------------------------------------

@explainer
def sqlite_rebuild_drops_meta(case, outcome, atoms):
    """A table rebuilt in this run (CREATE TABLE "TEMP_TABLE" ... RENAME TO t)
    is missing exactly index/check atoms that derive from the model's Meta
    options (unique_together, index_together, indexes, constraints) or from a
    PositiveIntegerField's inline CHECK."""
    res = outcome.get('res') or {}
    rebuilds = res.get('rebuilds') or {}
    final = res.get('final_spec')
    if not rebuilds and res.get('trace') is not None and \
            any(a[0] == 'exception' for a in atoms):
        # the run stopped with an exception: a later removal of a Meta group that an
        # earlier rebuild of the same run already lost fails with 'no such index'
        from . import inproc
        from . import specs as S
        rb = inproc.rebuild_counts(res['trace'].statements)
        meta_tables = set()
        for sp in _trail(case):
            for a_, _n, m in S.iter_models(sp):
                if m['unique_together'] or m['index_together'] or m['indexes'] or \
                        m['constraints']:
                    meta_tables.add(S.table_of(a_, m))
        if any(t in meta_tables for t in rb):
            return [a for a in atoms
                    if not (a[0] == 'exception' and a[2] == 'OperationalError' and
                            'no such index' in str(a[4]))]
        return atoms
    if not rebuilds or final is None:
        return atoms
    hist = _table_history(_trail(case))
    derived = _meta_derived(final)
    remaining = []
    for a in atoms:
        if a[0] == 'schema' and a[4] == 'missing' and a[2] in ('index', 'check'):
            t = a[1]
            names = hist.get(t, {t})
            if any(nm in rebuilds for nm in names) and t in derived:
                if a[2] == 'index':
                    unique, cols, _where, name = a[3]
                    hit = None
                    for d in derived[t]['index']:
                        if d[0] == unique and d[1] == [list(c) for c in cols] and \
                                (d[2] == name or (unique and name is None)):
                            hit = d
                            break
                    if hit is not None:
                        derived[t]['index'].remove(hit)
                        continue
                else:
                    name, expr = a[3]
                    key = name if name is not None else expr
                    if key in derived[t]['check']:
                        derived[t]['check'].remove(key)
                        continue
        remaining.append(a)
    return remaining


# ---------------------------------------------------------------------------
# F-C01-2
# ---------------------------------------------------------------------------

@explainer
def rename_model_owning_m2m_crashes(case, outcome, atoms):
    """RenameModel of a model that itself declares a ManyToManyField raises
    MissingSignatureError while building the MockModel for the new name."""
    from . import specs as S
    if case.get('mode') == 'hinted':
        return atoms
    trigger = False
    trail = _trail(case)
    for i, mut in enumerate(case['seq']):
        if mut['kind'] == 'RenameModel':
            m = S.get_model(trail[i], mut['app'], mut['old'])
            if m and any(f['kind'] == 'ManyToMany' for f in m['fields']):
                trigger = True
    if not trigger:
        return atoms
    return [a for a in atoms
            if not (a[0] == 'exception' and a[2] == 'MissingSignatureError' and
                    a[3] == 'signature.py:get_model_sig')]


# ---------------------------------------------------------------------------
# F-C01-3
# ---------------------------------------------------------------------------

@explainer
def hint_deletes_referenced_model_first(case, outcome, atoms):
    """Diff.evolution() lists DeleteModel mutations in signature order, not in
    dependency order: deleting the referenced model first makes the next
    DeleteModel (of the referencing model) raise MissingSignatureError."""
    from . import specs as S
    trail = _trail(case)
    start, final = trail[0], trail[-1]
    trigger = False
    if case.get('mode') == 'hinted':
        deleted = [(a, n) for a, n, m in S.iter_models(start)
                   if S.get_model(final, a, n) is None]
        for a, n in deleted:
            for ra, rn, _f in S.relations_to(start, a, n):
                # the referring field must go too (model or field deleted/retargeted):
                # whichever mutation does that may run after this DeleteModel
                if (ra, rn) != (a, n):
                    trigger = True
    else:
        # DeleteApplication runs DeleteModel for the app's models in signature order
        for i, mut in enumerate(case['seq']):
            if mut['kind'] == 'DeleteApplication':
                app = trail[i]['apps'].get(mut['app'], {'models': {}})
                for n, m in app['models'].items():
                    for f in m['fields']:
                        if f['target'] and f['target'][0] == mut['app'] and f['target'][1] != n:
                            trigger = True
    if not trigger:
        return atoms
    return [a for a in atoms
            if not (a[0] == 'exception' and a[2] == 'MissingSignatureError' and
                    a[3] == 'signature.py:get_model_sig')]


# ---------------------------------------------------------------------------
# F-C01-4
# ---------------------------------------------------------------------------

@explainer
def rename_model_leaves_m2m_through_names(case, outcome, atoms):
    """RenameModel renames only the model's own table: auto-created
    many-to-many tables keep their old table name and old <model>_id column
    names (a fresh database derives both from the new model name/table)."""
    from . import specs as S
    if case.get('mode') == 'hinted':
        return atoms
    trail = _trail(case)
    renamed = set()
    for i, mut in enumerate(case['seq']):
        if mut['kind'] == 'RenameModel':
            m = S.get_model(trail[i], mut['app'], mut['old'])
            if m:
                renamed.add(m['uid'])
    if not renamed:
        return atoms
    tables = set()
    for sp in trail:
        for a, n, m in S.iter_models(sp):
            for f in m['fields']:
                if f['kind'] != 'ManyToMany':
                    continue
                tgt = S.get_model(sp, *f['target'])
                if m['uid'] in renamed or (tgt is not None and tgt['uid'] in renamed):
                    tables.add(S.m2m_table_of(a, m, f))
    return [a for a in atoms if not (a[0] == 'schema' and a[1] in tables)]


# ---------------------------------------------------------------------------
# F-C01-5
# ---------------------------------------------------------------------------

@explainer
def index_identity_by_columns_only(case, outcome, atoms):
    """The index bookkeeping identifies an index by its column list alone
    (DatabaseState.find_index(columns)).  When two index-like objects of one
    table cover the same columns (field db_index/unique, *_together group,
    Meta.indexes entry, unique constraint) creating one is skipped because the
    other "already exists", and dropping one drops (or tries to drop) the
    other."""
    from . import specs as S
    trail = _trail(case)
    overlap = {}          # final table name -> set of frozenset(column names)
    names_of = {}
    for sp in trail:
        for a, n, m in S.iter_models(sp):
            names_of.setdefault(m['uid'], set()).add(S.table_of(a, m))
            objs = S.index_objects(m)
            for o in set(objs):
                if objs.count(o) > 1:
                    cols = set()
                    for fn in o:
                        f = S.get_field(m, fn)
                        if f is not None:
                            cols.add(f['uid'])
                    overlap.setdefault(m['uid'], set()).add(frozenset(cols))
    if case.get('mode') == 'hinted':
        # the hint orders field changes before Meta changes, whatever the edit order was:
        # an index-like object that exists before under one kind (say a Meta index on
        # [name]) and afterwards under another (db_index on name) overlaps in between
        def kinds_of(m):
            out = {}
            for f in m['fields']:
                if f['kind'] == 'ManyToMany':
                    continue
                if f['unique'] or f['kind'] == 'OneToOne':
                    out.setdefault(frozenset([f['uid']]), set()).add('unique')
                elif f['db_index']:
                    out.setdefault(frozenset([f['uid']]), set()).add('db_index')
            for prop in ('unique_together', 'index_together'):
                for t in m[prop]:
                    u = frozenset(S.get_field(m, fn)['uid'] for fn in t if S.get_field(m, fn))
                    out.setdefault(u, set()).add(prop)
            for ix in m['indexes']:
                u = frozenset(S.get_field(m, fn.lstrip('-'))['uid'] for fn in ix['fields']
                              if S.get_field(m, fn.lstrip('-')))
                out.setdefault(u, set()).add('indexes')
            for c in m['constraints']:
                if c['type'] == 'unique':
                    u = frozenset(S.get_field(m, fn)['uid'] for fn in c['fields']
                                  if S.get_field(m, fn))
                    out.setdefault(u, set()).add('constraints')
            return out
        first, last = trail[0], trail[-1]
        lastm = {m['uid']: m for _a, _n, m in S.iter_models(last)}
        for _a, _n, m0 in S.iter_models(first):
            m1 = lastm.get(m0['uid'])
            if m1 is None:
                continue
            k0, k1 = kinds_of(m0), kinds_of(m1)
            for cols in set(k0) & set(k1):
                if k0[cols] != k1[cols]:
                    overlap.setdefault(m0['uid'], set()).add(cols)
    if not overlap:
        return atoms
    final = trail[-1]
    bycol = {}            # table -> list of sets of final column names
    tables = set()
    for a, n, m in S.iter_models(final):
        if m['uid'] in overlap:
            t = S.table_of(a, m)
            tables |= names_of[m['uid']]
            for uids in overlap[m['uid']]:
                cols = {S.column_of(f) for f in m['fields'] if f['uid'] in uids}
                bycol.setdefault(t, []).append(cols)
    out = []
    for a in atoms:
        if a[0] == 'schema' and a[2] == 'index' and a[1] in bycol:
            cols = {c[0] for c in a[3][1]}
            if any(cols == want or None in cols for want in bycol[a[1]]):
                continue
        if a[0] == 'exception' and a[2] == 'OperationalError' and 'no such index' in a[4]:
            continue
        out.append(a)
    return out


# ---------------------------------------------------------------------------
# F-C01-6
# ---------------------------------------------------------------------------

@explainer
def change_db_column_and_db_index_together(case, outcome, atoms):
    """One ChangeField carrying both db_column and db_index=True renames the
    column first and then creates the index on the *old* column name (which
    SQLite parses as a string literal: an expression index on a constant)."""
    from . import specs as S
    trail = _trail(case)
    start, final = trail[0], trail[-1]
    hit = {}
    if case.get('mode') == 'hinted':
        for a, n, m in S.iter_models(final):
            m0 = S.get_model(start, a, n)
            if m0 is None:
                continue
            for f in m['fields']:
                o = S.get_field(m0, f['name'])
                if o and f['kind'] != 'ManyToMany' and S.column_of(o) != S.column_of(f) and \
                        f['db_index'] and not o['db_index'] and o['kind'] == f['kind']:
                    hit[(S.table_of(a, m), S.column_of(f))] = S.column_of(o)
    else:
        for i, mut in enumerate(case['seq']):
            if mut['kind'] == 'ChangeField' and not mut.get('field_kind') and \
                    mut['attrs'].get('db_index') is True and 'db_column' in mut['attrs']:
                m0 = S.get_model(trail[i], mut['app'], mut['model'])
                f0 = S.get_field(m0, mut['name'])
                uid = f0['uid']
                for a, n, m in S.iter_models(final):
                    for f in m['fields']:
                        if f['uid'] == uid and f['db_index'] and f['kind'] != 'ManyToMany':
                            hit[(S.table_of(a, m), S.column_of(f))] = S.column_of(f0)
    trig_tables = set()
    if case.get('mode') != 'hinted':
        for i, mut in enumerate(case['seq']):
            if mut['kind'] == 'ChangeField' and not mut.get('field_kind') and \
                    mut['attrs'].get('db_index') is True and 'db_column' in mut['attrs']:
                for sp in trail[i:]:
                    for a_, n_, m_ in S.iter_models(sp):
                        if m_['uid'] == S.get_model(trail[i], mut['app'], mut['model'])['uid']:
                            trig_tables.add(S.table_of(a_, m_))
    triggered = bool(hit) or bool(trig_tables)
    if not triggered:
        return atoms
    out = []
    for a in atoms:
        if a[0] == 'exception' and a[2] == 'OperationalError' and 'error in index' in a[4] \
                and 'no such column' in a[4]:
            continue        # a later column rename trips over the bogus index
        if a[0] == 'schema' and a[2] == 'index' and len(a[3][1]) == 1 and not a[3][0]:
            col = a[3][1][0][0]
            if a[4] == 'missing' and (a[1], col) in hit:
                continue
            if a[4] == 'extra' and col is None and (any(t == a[1] for t, _c in hit) or
                                                    a[1] in trig_tables):
                continue        # the bogus expression index itself (it outlives db_index=False)
        out.append(a)
    return out


# ---------------------------------------------------------------------------
# F-C01-7
# ---------------------------------------------------------------------------

@explainer
def type_change_with_column_rename(case, outcome, atoms):
    """A ChangeField that changes the field type *and* (through the attribute
    reset a type change implies) the column name produces a rebuild whose
    INSERT still names the old column: "table TEMP_TABLE has no column named"."""
    from . import specs as S
    trail = _trail(case)
    start, final = trail[0], trail[-1]
    trigger = False
    if case.get('mode') == 'hinted':
        for a, n, m in S.iter_models(final):
            m0 = S.get_model(start, a, n)
            if m0 is None:
                continue
            for f in m['fields']:
                f0 = S.get_field(m0, f['name'])
                if f0 and f0['kind'] != f['kind'] and 'ManyToMany' not in (f0['kind'], f['kind']) \
                        and S.column_of(f0) != S.column_of(f):
                    trigger = True
    else:
        for i, mut in enumerate(case['seq']):
            if mut['kind'] == 'ChangeField' and mut.get('field_kind'):
                f0 = S.get_field(S.get_model(trail[i], mut['app'], mut['model']), mut['name'])
                f1 = S.get_field(S.get_model(trail[i + 1], mut['app'], mut['model']), mut['name'])
                if f0 and f1 and S.column_of(f0) != S.column_of(f1):
                    trigger = True
    if not trigger:
        return atoms
    return [a for a in atoms
            if not (a[0] == 'exception' and a[2] == 'OperationalError' and
                    'TEMP_TABLE has no column named' in a[4])]


@explainer
def renamed_indexed_field_keeps_index_name(case, outcome, atoms):
    """RenameField of a db_index field renames the column but the field's index
    keeps the name derived from the old column; adding a new indexed field under
    the vacated name then fails: DatabaseStateError 'Unable to add index
    "<table>_<old>_<hash>" ... This index already exists'."""
    from . import specs as S
    trail = _trail(case)
    vacated = set()
    trig = False
    for i, mut in enumerate(case['seq']):
        if mut['kind'] == 'RenameField':
            m = S.get_model(trail[i], mut['app'], mut['model'])
            f = S.get_field(m, mut['old']) if m else None
            if f is not None and f['kind'] != 'ManyToMany' and \
                    (f['db_index'] or f['kind'] == 'ForeignKey'):
                vacated.add((m['uid'], mut['old']))
        if mut['kind'] == 'AddField':
            m = S.get_model(trail[i], mut['app'], mut['model'])
            if m is not None and (m['uid'], mut['field']['name']) in vacated and \
                    (mut['field']['db_index'] or mut['field']['kind'] == 'ForeignKey'):
                trig = True
    if not trig:
        return atoms
    return [a for a in atoms
            if not (a[0] == 'exception' and a[2] == 'DatabaseStateError' and
                    'already exists' in str(a[4]))]


@explainer
def callable_initial_breaks_unique_column(case, outcome, atoms):
    """F-C02-1 with a unique index in the way: ChangeField(null=False,
    initial=<callable>) writes the literal into every row of the column; when
    the column is (or becomes, in the same run) covered by a single-column unique
    index the rebuild fails with 'UNIQUE constraint failed'."""
    trig = any(mut['kind'] == 'ChangeField' and mut['attrs'].get('null') is False and
               isinstance(mut.get('initial'), dict) and 'callable' in mut['initial']
               for mut in case['seq'])
    if not trig:
        return atoms
    return [a for a in atoms
            if not (a[0] == 'exception' and a[2] == 'IntegrityError' and
                    'UNIQUE constraint failed' in str(a[4]))]


@explainer
def type_change_ignores_not_null_initial(case, outcome, atoms):
    """A ChangeField that changes the field type *and* makes the column NOT NULL
    with an initial value: on SQLite the type change is lowered to a 'CHANGE
    COLUMN TYPE' rebuild that knows nothing about the initial value, so existing
    NULLs are copied into the NOT NULL column: IntegrityError 'NOT NULL
    constraint failed: TEMP_TABLE.<column>'."""
    from . import specs as S
    trail = _trail(case)
    trig = False
    if case.get('mode') == 'hinted':
        start, final = trail[0], trail[-1]
        for a, n, m in S.iter_models(final):
            m0 = S.get_model(start, a, n)
            if m0 is None:
                continue
            for f in m['fields']:
                f0 = S.get_field(m0, f['name'])
                if f0 is not None and f0['kind'] != f['kind'] and f0['null'] and not f['null'] \
                        and 'ManyToMany' not in (f0['kind'], f['kind']):
                    trig = True
    else:
        for mut in case['seq']:
            if mut['kind'] == 'ChangeField' and mut.get('field_kind') and \
                    mut['attrs'].get('null') is False:
                trig = True
    if not trig:
        return atoms
    return [a for a in atoms
            if not (a[0] == 'exception' and a[2] == 'IntegrityError' and
                    'NOT NULL constraint failed: TEMP_TABLE' in str(a[4]))]


@explainer
def hint_adds_before_it_deletes_table_name(case, outcome, atoms):
    """The hinted evolution lists additions before deletions: a many-to-many
    table name that moves from a deleted model/field to a new field in the same
    hint still exists when the new field is added: OperationalError 'table ...
    already exists'."""
    from . import specs as S
    if case.get('mode') != 'hinted':
        return atoms
    trail = _trail(case)
    start, final = trail[0], trail[-1]

    def m2m_tables(sp):
        out = {}
        for a, n, m in S.iter_models(sp):
            for f in m['fields']:
                if f['kind'] == 'ManyToMany':
                    out[S.m2m_table_of(a, m, f)] = f['uid']
        return out
    t0, t1 = m2m_tables(start), m2m_tables(final)
    moved = {t for t in t0 if t in t1 and t0[t] != t1[t]}
    if not moved:
        return atoms
    return [a for a in atoms
            if not (a[0] == 'exception' and a[2] == 'OperationalError' and
                    'already exists' in str(a[4]) and any(t in str(a[4]) for t in moved))]


@explainer
def hint_retargets_relation_with_changefield(case, outcome, atoms):
    """F-C05-4 seen from the database side: a relation that keeps its name but
    points at another model is hinted as ChangeField(related_model=...), which
    ChangeField.mutate refuses: EvolutionNotImplementedError "ChangeField does not
    support modifying the 'related_model' attribute".  Nothing is executed."""
    from . import specs as S
    if case.get('mode') != 'hinted':
        return atoms
    trail = _trail(case)
    start, final = trail[0], trail[-1]
    trig = False
    for a, n, m in S.iter_models(final):
        m0 = S.get_model(start, a, n)
        if m0 is None:
            continue
        for f in m['fields']:
            f0 = S.get_field(m0, f['name'])
            if f0 is not None and f0['target'] and f['target'] and \
                    list(f0['target']) != list(f['target']):
                trig = True
    if not trig:
        return atoms
    return [a for a in atoms
            if not (a[0] == 'exception' and 'related_model' in str(a[4]) and
                    (a[2] == 'EvolutionNotImplementedError' or
                     (a[2] == 'AttributeError' and
                      'change_column_attr_related_model' in str(a[4]))))]


@explainer
def hint_keeps_relation_column_for_plain_field(case, outcome, atoms):
    """A ForeignKey/OneToOneField replaced by a plain column field of the same
    name (or the reverse) is hinted as ChangeField(field_type=...).  The database
    types are equal (integer), so nothing is executed: the column keeps its
    '<name>_id' / '<name>' name and the foreign-key constraint stays / is never
    created."""
    from . import specs as S
    if case.get('mode') != 'hinted':
        return atoms
    trail = _trail(case)
    start, final = trail[0], trail[-1]
    cols = {}
    for a, n, m in S.iter_models(final):
        m0 = S.get_model(start, a, n)
        if m0 is None:
            continue
        for f in m['fields']:
            f0 = S.get_field(m0, f['name'])
            if f0 is None or 'ManyToMany' in (f0['kind'], f['kind']):
                continue
            rel0 = f0['kind'] in ('ForeignKey', 'OneToOne')
            rel1 = f['kind'] in ('ForeignKey', 'OneToOne')
            if rel0 != rel1:
                cols.setdefault(S.table_of(a, m), set()).update(
                    {S.column_of(f0), S.column_of(f)})
    if not cols:
        return atoms
    out = []
    for a in atoms:
        if a[0] == 'exception' and a[2] == 'AttributeError' and \
                'change_column_attr_related_model' in str(a[4]):
            # plain column -> relation: the hint carries related_model, which the
            # attribute-change dispatcher has no handler for
            continue
        if a[0] == 'exception' and a[2] == 'AssertionError' and \
                'related_model cannot be passed in field_attrs' in str(a[4]):
            # ChangeField.simulate left 'related_model' among the field attributes
            # (F-C05-4); the next mock model built from the signature trips over it
            continue
        if a[0] == 'schema' and a[1] in cols and a[2] in ('column', 'fk', 'index'):
            names = set()
            if a[2] == 'index':
                names = {c[0] for c in a[3][1]}
            else:
                names = {a[3][0]}
            if names & cols[a[1]]:
                continue
        out.append(a)
    return out


# ---------------------------------------------------------------------------
# F-C01-8
# ---------------------------------------------------------------------------

@explainer
def m2m_rename_keeps_index_names(case, outcome, atoms):
    """RenameField on a ManyToManyField renames the through table but not its
    (globally named) indexes; adding a new ManyToManyField under the old name
    then fails with "index ... already exists"."""
    from . import specs as S
    trail = _trail(case)
    old = set()
    trigger = False
    for i, mut in enumerate(case['seq']):
        if mut['kind'] == 'RenameField':
            m = S.get_model(trail[i], mut['app'], mut['model'])
            f = S.get_field(m, mut['old']) if m else None
            if f and f['kind'] == 'ManyToMany':
                old.add((m['uid'], mut['old']))
        if mut['kind'] == 'AddField' and mut['field']['kind'] == 'ManyToMany':
            m = S.get_model(trail[i], mut['app'], mut['model'])
            if m and (m['uid'], mut['field']['name']) in old:
                trigger = True
    if not trigger:
        return atoms
    return [a for a in atoms if not (a[0] == 'exception' and a[2] == 'OperationalError' and
                                     'already exists' in a[4] and 'index' in a[4])]


# ---------------------------------------------------------------------------
# F-C01-9
# ---------------------------------------------------------------------------

@explainer
def db_index_false_with_rebuild_in_one_change(case, outcome, atoms):
    """A single ChangeField that sets db_index=False together with an attribute
    that rebuilds the table (unique, null, max_length, ...): the index is
    dropped before the rebuild and then re-created by it, because the rebuilt
    field object still says db_index=True."""
    from . import specs as S
    trail = _trail(case)
    final = trail[-1]
    cols = set()
    if case.get('mode') == 'hinted':
        # (the hint pairs fields by model and field *name*)
        for a, n, m in S.iter_models(final):
            m0 = S.get_model(trail[0], a, n)
            if m0 is None:
                continue
            for f in m['fields']:
                o = S.get_field(m0, f['name'])
                if o and o['kind'] == f['kind'] and o['db_index'] and not f['db_index'] and \
                        any(o[k] != f[k] for k in ('unique', 'null', 'max_length', 'max_digits',
                                                   'decimal_places')):
                    cols.add((S.table_of(a, m), S.column_of(f)))
    else:
        for i, mut in enumerate(case['seq']):
            if mut['kind'] == 'ChangeField' and not mut.get('field_kind') and \
                    mut['attrs'].get('db_index') is False and \
                    set(mut['attrs']) & {'unique', 'null', 'max_length', 'max_digits',
                                         'decimal_places'}:
                m0 = S.get_model(trail[i], mut['app'], mut['model'])
                uid = S.get_field(m0, mut['name'])['uid']
                for a, n, m in S.iter_models(final):
                    for f in m['fields']:
                        if f['uid'] == uid and f['kind'] != 'ManyToMany':
                            cols.add((S.table_of(a, m), S.column_of(f)))
    if not cols:
        return atoms
    out = []
    for a in atoms:
        if a[0] == 'schema' and a[2] == 'index' and a[4] == 'extra' and not a[3][0] and \
                len(a[3][1]) == 1 and (a[1], a[3][1][0][0]) in cols:
            continue
        out.append(a)
    return out


# ---------------------------------------------------------------------------
# F-C01-10
# ---------------------------------------------------------------------------

@explainer
def hint_changes_m2m_into_column(case, outcome, atoms):
    """When a ManyToManyField is replaced by a column field of the same name (or
    vice versa) the hint is a ChangeField(field_type=...): the through table is
    never dropped/created and the column never added/removed."""
    from . import specs as S
    if case.get('mode') != 'hinted':
        return atoms
    trail = _trail(case)
    start, final = trail[0], trail[-1]
    tables = set()
    for a, n, m in S.iter_models(final):
        m0 = S.get_model(start, a, n)
        if m0 is None:
            continue
        for f in m['fields']:
            f0 = S.get_field(m0, f['name'])
            if f0 and (f0['kind'] == 'ManyToMany') != (f['kind'] == 'ManyToMany'):
                tables.add(S.table_of(a, m))
                tables.add(S.table_of(a, m0))
                for x, mm in ((f0, m0), (f, m)):
                    if x['kind'] == 'ManyToMany':
                        tables.add(S.m2m_table_of(a, mm, x))
    if not tables:
        return atoms
    return [a for a in atoms if not (a[0] == 'schema' and a[1] in tables) and
            not (a[0] == 'exception')]


@explainer
def hint_changes_m2m_into_column_rows(case, outcome, atoms):
    """F-C01-10 seen through the rows: the column that should replace a
    ManyToManyField of the same name is never added (and the link table of the
    reverse replacement never created), so its values cannot be read."""
    from . import specs as S
    if case.get('mode') != 'hinted':
        return atoms
    trail = _trail(case)
    start, final = trail[0], trail[-1]
    uids = set()
    for a, n, m in S.iter_models(final):
        m0 = S.get_model(start, a, n)
        if m0 is None:
            continue
        for f in m['fields']:
            f0 = S.get_field(m0, f['name'])
            if f0 and (f0['kind'] == 'ManyToMany') != (f['kind'] == 'ManyToMany'):
                uids.add(f['uid'])
                uids.add(f0['uid'])
    if not uids:
        return atoms
    return [a for a in atoms
            if not (a[0] in ('rows', 'links') and len(a) > 3 and a[3] in uids) and
            not (a[0] in ('rows', 'links') and a[1] in ('column_unreadable', 'table_unreadable')
                 and any(u in a for u in uids))]


# ---------------------------------------------------------------------------
# F-C01-11
# ---------------------------------------------------------------------------

@explainer
def hint_deletes_field_before_meta_cleanup(case, outcome, atoms):
    """Diff.evolution() orders DeleteField before the ChangeMeta that removes
    the field from index_together / indexes / constraints; the ChangeMeta (or
    the rebuild) then looks the deleted field up and raises
    FieldDoesNotExist."""
    from . import specs as S
    if case.get('mode') != 'hinted':
        return atoms
    trail = _trail(case)
    start, final = trail[0], trail[-1]
    trigger = False
    for a, n, m0 in S.iter_models(start):
        m1 = S.get_model(final, a, n)
        if m1 is None:
            continue
        mr = S.meta_field_refs(m0)
        names = mr['index_together'] | mr['indexes'] | mr['constraints']
        for f in m0['fields']:
            if f['name'] in names and all(g['uid'] != f['uid'] for g in m1['fields']):
                trigger = True
    if not trigger:
        return atoms
    return [a for a in atoms if not (a[0] == 'exception' and a[2] == 'FieldDoesNotExist')]


# ---------------------------------------------------------------------------
# F-C02-1
# ---------------------------------------------------------------------------

@explainer
def callable_initial_overwrites_column(case, outcome, atoms):
    """ChangeField(null=False, initial=<callable returning an SQL literal>) on
    SQLite copies the literal into *every* row of the column (the rebuild's
    SELECT uses the bare literal instead of coalesce(col, literal)); the
    repository's own test expectation encodes that SQL, so it is recorded, not
    repaired."""
    from . import specs as S
    trail = _trail(case)
    uids = set()
    for i, mut in enumerate(case['seq']):
        if mut['kind'] == 'ChangeField' and mut['attrs'].get('null') is False and \
                isinstance(mut.get('initial'), dict) and 'callable' in mut['initial']:
            m = S.get_model(trail[i], mut['app'], mut['model'])
            f = S.get_field(m, mut['name']) if m else None
            if f is not None:
                uids.add(f['uid'])
    if not uids:
        return atoms
    return [a for a in atoms
            if not (a[0] == 'rows' and a[1] == 'value_changed' and a[3] in uids)]


@explainer
def percent_literal_in_deferred_constraint_sql(case, outcome, atoms):
    """A conditional UniqueConstraint is lowered through
    connection.schema_editor(collect_sql=True); its partial-index statement is
    deferred and, when the editor exits in collect mode, formatted with
    `sql % ()`.  A string value containing '%' in the condition (name IN ('y',
    '50%')) makes that formatting raise TypeError('not enough arguments for
    format string') before any SQL runs."""
    def has_percent(obj):
        if isinstance(obj, str):
            return '%' in obj
        if isinstance(obj, dict):
            return any(has_percent(v) for v in obj.values())
        if isinstance(obj, list):
            return any(has_percent(v) for v in obj)
        return False

    def conditional_unique_with_percent(constraints):
        return any(c.get('type') == 'unique' and c.get('condition') and
                   has_percent(c['condition']) for c in constraints or [])
    trig = False
    try:
        for sp in _trail(case):
            from . import specs as S
            for _a, _n, m in S.iter_models(sp):
                if conditional_unique_with_percent(m['constraints']):
                    trig = True
    except Exception:
        pass
    if not trig:
        return atoms
    return [a for a in atoms
            if not (a[0] == 'exception' and a[2] == 'TypeError' and
                    'not enough arguments for format string' in str(a[-1]))]


# ---------------------------------------------------------------------------
# C03 findings
# ---------------------------------------------------------------------------

# (F-C03-1, the optimiser rewriting the evolution definitions in place, was repaired in
# /repo - X-C03-2; its explainer and the structural flag add_then_rename are gone, so the
# atoms b_definitions_changed / e_definitions_changed / b2_* are violations again)


def _c03_case(case):
    from .props import c03
    return c03.expand(case)


def _batches(case):
    """Optimiser batches: maximal runs of model mutations of one app, as the
    bare AppMutator (consecutive same-app groups) and as the Evolver (all of an
    app's mutations concatenated) see them; lists of indices into case['seq']."""
    seq = case['seq']
    out = []
    cur = []
    cur_app = None
    for i, m in enumerate(seq):
        if m['kind'] == 'SQLMutation' or m['app'] != cur_app:
            if cur:
                out.append(cur)
            cur = []
            cur_app = m['app']
            if m['kind'] == 'SQLMutation':
                continue
        cur.append(i)
    if cur:
        out.append(cur)
    apps = []
    for m in seq:
        if m['app'] not in apps:
            apps.append(m['app'])
    for app in apps:
        cur = []
        for i, m in enumerate(seq):
            if m['app'] != app:
                continue
            if m['kind'] == 'SQLMutation':
                if cur:
                    out.append(cur)
                cur = []
                continue
            cur.append(i)
        if cur:
            out.append(cur)
    uniq = []
    for b in out:
        if b not in uniq:
            uniq.append(b)
    return uniq


def _model_uid_at(trail, i, mut):
    from . import specs as S
    name = mut.get('model', mut.get('old'))
    if name is None:
        return None
    m = S.get_model(trail[i], mut['app'], name)
    return m['uid'] if m else None


def _tables_of_uid(trail, uid):
    from . import specs as S
    out = set()
    for sp in trail:
        for a, n, m in S.iter_models(sp):
            if m['uid'] == uid:
                out.add(S.table_of(a, m))
                for f in m['fields']:
                    if f['kind'] == 'ManyToMany':
                        out.add(S.m2m_table_of(a, m, f))
    return out


REBUILD_ATTRS = {'null', 'unique', 'max_length', 'max_digits', 'decimal_places'}


def _is_rebuilding(mut):
    k = mut['kind']
    if k == 'ChangeField':
        return bool(mut.get('field_kind') or set(mut['attrs']) & REBUILD_ATTRS)
    if k == 'AddField':
        return mut['field']['kind'] != 'ManyToMany'
    if k == 'DeleteField':
        return True
    if k == 'ChangeMeta' and mut['prop'] == 'constraints':
        return True
    return False


def c03_flags(case, outcome=None):
    """model uid -> set of trigger flags (the structural patterns behind the
    C03 findings).  A case with no flag at all is in the fragment where the
    optimised run must agree with the one-at-a-time run without excuses."""
    from . import specs as S
    case = _c03_case(case)
    seq = case['seq']
    trail = _trail(case)
    flags = {}

    def flag(uid, name):
        if uid is not None:
            flags.setdefault(uid, set()).add(name)

    uids = [_model_uid_at(trail, i, m) for i, m in enumerate(seq)]
    # model-level mutations
    ren_per_app = {}
    for m in seq:
        if m['kind'] == 'RenameModel':
            ren_per_app[m['app']] = ren_per_app.get(m['app'], 0) + 1
    for b in _batches(case):
        kinds = [seq[i]['kind'] for i in b]
        if ('RenameModel' in kinds or 'DeleteModel' in kinds) and len(b) >= 2:
            for i in b:
                flag(uids[i], 'model_level')
            flag('*', 'model_level')
    if any(n >= 2 for n in ren_per_app.values()):
        flag('*', 'model_level')
    has_barrier = any(m['kind'] == 'SQLMutation' for m in seq)
    seen_model_level = False
    for i, m in enumerate(seq):
        if m['kind'] in ('RenameModel', 'DeleteModel'):
            seen_model_level = True
    if has_barrier and seen_model_level:
        flag('*', 'model_level')
    # per-batch patterns
    for b in _batches(case):
        ren, ini, drops, rebuild, colchg, metas = {}, {}, {}, set(), set(), set()
        multi_meta = {}
        merging_rebuild = set()
        for i in b:
            m = seq[i]
            u = uids[i]
            if m['kind'] == 'RenameField':
                ren[u] = ren.get(u, 0) + 1
            if m['kind'] in ('AddField', 'ChangeField') and m.get('initial') is not None:
                ini[u] = ini.get(u, 0) + 1
            if m['kind'] == 'ChangeField' and 'db_index' in m['attrs'] and \
                    not (set(m['attrs']) & REBUILD_ATTRS):
                drops[u] = True
            if m['kind'] == 'ChangeMeta':
                key = (u, m['prop'])
                multi_meta[key] = multi_meta.get(key, 0) + 1
            if _is_rebuilding(m):
                rebuild.add(u)
            if _is_rebuilding(m) and m['kind'] in ('AddField', 'ChangeField'):
                merging_rebuild.add(u)
            if m['kind'] == 'RenameField':
                # renaming a column is a table rebuild on SQLite too, and shares it
                mm_ = S.get_model(trail[i], m['app'], m['model'])
                f_ = S.get_field(mm_, m['old']) if mm_ else None
                if f_ is not None and f_['kind'] != 'ManyToMany':
                    merging_rebuild.add(u)
            if m['kind'] == 'ChangeField' and 'db_column' in m['attrs']:
                colchg.add(u)
            if m['kind'] == 'RenameField':
                colchg.add(u)
            if m['kind'] == 'ChangeMeta':
                metas.add(u)
        for u, n in ren.items():
            if n >= 2:
                flag(u, 'multi_rename')
        for u, n in ini.items():
            if n >= 2:
                flag(u, 'multi_initial')
        for u in drops:
            # only add_column / change_column operations share a rebuild with their
            # neighbours on this tree (delete_column / change_meta do not: F-C18-1)
            if u in merging_rebuild:
                flag(u, 'dbindex_rebuild')
        for u in colchg & metas:
            flag(u, 'dbcolumn_meta')
        for (u, _prop), n in multi_meta.items():
            if n >= 2:
                flag(u, 'multi_meta')
    # AddField folded with a later RenameField of that field while a db_column is in play
    # (given by the AddField, or by a ChangeField of the field before or after the rename):
    # the folded AddField ends up with the wrong db_column
    for b in _batches(case):
        added = {}          # (uid, current name) -> {'col': bool, 'renamed': bool}
        for i in b:
            m = seq[i]
            if m['kind'] == 'AddField':
                added[(uids[i], m['field']['name'])] = {
                    'col': bool(m['field'].get('db_column') or
                                (m['field']['kind'] == 'ManyToMany' and
                                 m['field'].get('db_table'))), 'renamed': False}
            elif m['kind'] == 'ChangeField' and (uids[i], m['name']) in added:
                if m['attrs'].get('db_column'):
                    added[(uids[i], m['name'])]['col'] = True
            elif m['kind'] == 'RenameField' and (uids[i], m['old']) in added:
                st_ = added.pop((uids[i], m['old']))
                st_['renamed'] = True
                added[(uids[i], m['new'])] = st_
        for (u, _n), st_ in added.items():
            if st_['col'] and st_['renamed']:
                flag(u, 'add_rename_dbcolumn')
    # a field name is vacated and (re)occupied inside a batch that also deletes a field
    for b in _batches(case):
        per = {}
        for i in b:
            m = seq[i]
            d = per.setdefault(uids[i], {'vac': set(), 'reused': False, 'del': False})
            # reuse = a name is occupied AFTER it was vacated in this batch (two holders of
            # one name); AddField(f) .. DeleteField(f) of the same holder is not reuse
            if m['kind'] == 'DeleteField':
                d['vac'].add(m['name'])
                d['del'] = True
            elif m['kind'] == 'RenameField':
                if m['new'] in d['vac']:
                    d['reused'] = True
                d['vac'].add(m['old'])
            elif m['kind'] == 'AddField':
                if m['field']['name'] in d['vac']:
                    d['reused'] = True
        for u, d in per.items():
            if d['del'] and d['reused']:
                flag(u, 'delete_name_reuse')
    # a column is renamed inside a batch and the same batch (a) takes the vacated field /
    # column name for a new field, or (b) changes unique / db_index / db_column of the renamed
    # field: DatabaseState and the merged rebuild do not follow the rename
    for b in _batches(case):
        renamed = {}        # uid -> [(old name, new name)]
        for i in b:
            m = seq[i]
            if m['kind'] == 'RenameField':
                mm_ = S.get_model(trail[i], m['app'], m['model'])
                f_ = S.get_field(mm_, m['old']) if mm_ else None
                if f_ is not None and f_['kind'] != 'ManyToMany':
                    renamed.setdefault(uids[i], []).append((m['old'], m['new']))
        # ... likewise an indexed column that a DeleteField of the batch drops and an
        # AddField of the same batch re-creates under the same column name
        dropped_cols = {}
        for i in b:
            m = seq[i]
            if m['kind'] == 'DeleteField':
                mm_ = S.get_model(trail[i], m['app'], m['model'])
                f_ = S.get_field(mm_, m['name']) if mm_ else None
                if f_ is not None and f_['kind'] != 'ManyToMany' and \
                        (f_['db_index'] or f_['unique'] or f_['kind'] in ('ForeignKey', 'OneToOne')):
                    dropped_cols.setdefault(uids[i], set()).add(S.column_of(f_))
            if m['kind'] == 'AddField' and m['field']['kind'] != 'ManyToMany' and \
                    (m['field']['db_index'] or m['field']['unique'] or
                     m['field']['kind'] in ('ForeignKey', 'OneToOne')) and \
                    S.column_of(m['field']) in dropped_cols.get(uids[i], ()):
                flag(uids[i], 'rename_stale_state')
        for i in b:
            m = seq[i]
            pairs = renamed.get(uids[i]) or []
            if not pairs:
                continue
            if m['kind'] == 'AddField' and any(m['field']['name'] == o for o, _n in pairs):
                flag(uids[i], 'rename_stale_state')
            if m['kind'] == 'ChangeField' and \
                    any(m['name'] in (o, n_) for o, n_ in pairs) and \
                    set(m['attrs']) & {'unique', 'db_index', 'db_column'}:
                flag(uids[i], 'rename_stale_state')
    # several ChangeFields of one field in the whole case (folding also looks across
    # barriers through the stale signature), or a ChangeField of a field added in the case
    per_field = {}
    added = set()
    for i, m in enumerate(seq):
        if m['kind'] == 'AddField':
            added.add(m['field']['uid'])
        if m['kind'] == 'ChangeField':
            mm = S.get_model(trail[i], m['app'], m['model'])
            f = S.get_field(mm, m['name']) if mm else None
            if f is not None:
                per_field[f['uid']] = per_field.get(f['uid'], 0) + 1
                if per_field[f['uid']] >= 2 or (f['uid'] in added and m.get('field_kind')):
                    flag(uids[i], 'multi_change')
    # the same model is touched on both sides of a barrier
    if has_barrier:
        side = 0
        sides = {}
        for i, m in enumerate(seq):
            if m['kind'] == 'SQLMutation':
                side += 1
                continue
            sides.setdefault(uids[i], set()).add(side)
        for u, ss in sides.items():
            if len(ss) >= 2:
                flag(u, 'barrier_split')
    # Meta + rebuild (F-C01-1) and index identity (F-C01-5)
    rebuilt = set()
    if outcome is not None:
        for sidev in (outcome.get('rebuilds') or {}).values():
            rebuilt |= {k for k, v in sidev.items() if v}
    for sp in trail:
        for a, n, mm in S.iter_models(sp):
            if S.has_index_overlap(mm):
                flag(mm['uid'], 'index_overlap')
            if mm['uid'] in rebuilt and (mm['unique_together'] or mm['index_together'] or
                                         mm['indexes'] or mm['constraints'] or
                                         any(f['kind'] == 'PositiveInteger' for f in mm['fields'])):
                flag(mm['uid'], 'meta_rebuild')
    return flags, trail


ANY_EXC = ('EvolutionBaselineMissingError', 'MissingSignatureError', 'SimulationFailure',
           'AttributeError', 'DatabaseStateError', 'FieldDoesNotExist', 'KeyError',
           'OperationalError', 'IntegrityError', 'TypeError', 'AssertionError', 'RefInvalid',
           'EvolutionExecutionError', 'ValueError')


def _explain_by_flag(flagname, case, outcome, atoms, exc_types=ANY_EXC, kinds=None,
                     any_table_atoms=False):
    flags, trail = c03_flags(case, outcome)
    hit = [u for u, fl in flags.items() if flagname in fl]
    if not hit:
        return atoms
    tables = set()
    for u in hit:
        if u == '*':
            continue
        tables |= _tables_of_uid(trail, u)
    wild = '*' in hit
    out = []
    for a in atoms:
        base = a[0].split('_', 1)[1] if a[0][:2] in ('b_', 'e_') else None
        if base is None:
            out.append(a)
            continue
        if base == 'rejected':
            if a[1] in exc_types:
                continue
        elif base in ('schema', 'rows'):
            if (wild or a[1] in tables) and (kinds is None or base == 'rows' or a[2] in kinds):
                continue
            if any_table_atoms and base == 'schema' and a[2] == 'table':
                continue
        elif base == 'signature':
            continue
        out.append(a)
    return out


@explainer
def rebuild_initials_bound_in_wrong_order(case, outcome, atoms):
    """>=2 initial-carrying mutations (AddField with initial, ChangeField with
    initial) of one model in one batch: the single rebuild binds parameters in
    operation order while placeholders stand in column order, and a
    ChangeField's initial rolled into an earlier AddField replaces its initial."""
    return _explain_by_flag('multi_initial', case, outcome, atoms,
                            exc_types=('IntegrityError', 'OperationalError',
                                       'EvolutionExecutionError'), kinds=())


@explainer
def db_index_false_merged_into_rebuild(case, outcome, atoms):
    """A db_index-only ChangeField sharing a batch with a table-rebuilding
    mutation of the same model: db_index=False is dropped before the rebuild and
    re-created by it; db_index=True is swallowed by the rebuild and never
    created."""
    return _explain_by_flag('dbindex_rebuild', case, outcome, atoms, exc_types=(),
                            kinds=('index',))


@explainer
def model_level_mutations_inside_a_batch(case, outcome, atoms):
    """RenameModel / DeleteModel next to other mutations: regrouping by sorted
    model name, RenameModel chain collapse, the "rename to what the baseline
    already has" shortcut evaluated against the start signature, and a
    DatabaseState that does not follow renamed tables."""
    return _explain_by_flag('model_level', case, outcome, atoms)


@explainer
def rebuild_drops_meta_inside_batch(case, outcome, atoms):
    """F-C01-1 through the S/B differential (stale index bookkeeping after a
    rebuild silently dropped Meta-derived indexes; cancelled add+delete never
    rebuilds)."""
    return _explain_by_flag('meta_rebuild', case, outcome, atoms,
                            exc_types=('OperationalError', 'EvolutionExecutionError',
                                       'DatabaseStateError'), kinds=('index', 'check'))


@explainer
def index_identity_inside_batch(case, outcome, atoms):
    """F-C01-5 through the S/B differential (index identity by column list)."""
    return _explain_by_flag('index_overlap', case, outcome, atoms,
                            exc_types=('OperationalError', 'EvolutionExecutionError',
                                       'DatabaseStateError'), kinds=('index',))


@explainer
def rename_field_chain_collapse(case, outcome, atoms):
    """>=2 RenameFields of one model in a batch: the collapsed RenameField keeps
    the first rename's db_column/db_table; bookkeeping keyed by (model, name)
    confuses the old and the new holder of a name."""
    return _explain_by_flag('multi_rename', case, outcome, atoms, any_table_atoms=True)


@explainer
def change_field_folding(case, outcome, atoms):
    """Several ChangeFields of one field (or a type-changing ChangeField of a
    field added in the same run) are folded into one mutation: attributes of a
    type change are merged instead of reset, a null=False/initial step that is
    later undone disappears together with its data effect, and a folded
    db_column + type change emits a broken rebuild."""
    return _explain_by_flag('multi_change', case, outcome, atoms)


@explainer
def stale_bookkeeping_behind_barrier(case, outcome, atoms):
    """One AppMutator pre-processes and records operations for the whole list
    against the signature/DatabaseState of the start: mutations of a model on
    both sides of an SQLMutation barrier meet stale index/column bookkeeping."""
    return _explain_by_flag('barrier_split', case, outcome, atoms)


@explainer
def db_column_change_with_meta_change(case, outcome, atoms):
    """A column rename (ChangeField db_column / RenameField) and a ChangeMeta of
    the same model in one batch: the index to drop/create is looked up under the
    wrong column name."""
    return _explain_by_flag('dbcolumn_meta', case, outcome, atoms,
                            exc_types=('OperationalError', 'EvolutionExecutionError',
                                       'DatabaseStateError'), kinds=('index',))


@explainer
def change_meta_repeated_in_batch(case, outcome, atoms):
    """Two ChangeMetas of the same property on one model in one batch (e.g.
    index_together added and then removed): both are lowered against the
    bookkeeping of the start, so the second drops an index that was never
    created ("no such index") or leaves the first one's behind."""
    return _explain_by_flag('multi_meta', case, outcome, atoms,
                            exc_types=('OperationalError', 'EvolutionExecutionError',
                                       'DatabaseStateError'), kinds=('index', 'check'))


@explainer
def add_field_db_column_survives_rename(case, outcome, atoms):
    """AddField(..., db_column=X) folded with a later RenameField of that field
    (without db_column): the folded AddField keeps db_column=X although the
    rename resets the column to the default for the new name."""
    return _explain_by_flag('add_rename_dbcolumn', case, outcome, atoms,
                            exc_types=(), kinds=('column', 'index', 'fk', 'table'),
                            any_table_atoms=True)


@explainer
def rename_not_followed_inside_batch(case, outcome, atoms):
    """Inside one batch neither the DatabaseState nor the merged table rebuild
    follows a column rename: operations of the same batch that take the vacated
    field/column name for a new field, or that change unique / db_index /
    db_column of the renamed field, are rejected (DatabaseStateError 'index ...
    already exists', AssertionError in change_column_attr_unique, 'duplicate
    column name'), although one at a time they succeed.  Only those rejections
    are accounted for, not differing results."""
    flags, _t = c03_flags(case, outcome)
    if not any('rename_stale_state' in fl for fl in flags.values()):
        return atoms
    out = []
    for a in atoms:
        if a[0] in ('b_rejected', 'e_rejected'):
            msg = str(a[3]) if len(a) > 3 else ''
            if a[1] == 'DatabaseStateError' and 'already exists' in msg:
                continue
            if a[1] == 'AssertionError' and 'change_column_attr_unique' in str(a[2]):
                continue
            if a[1] in ('OperationalError', 'EvolutionExecutionError') and \
                    'duplicate column name' in msg:
                continue
        out.append(a)
    return out


# ---------------------------------------------------------------------------
# C18
# ---------------------------------------------------------------------------

@explainer
def mergeable_ops_missing_comma(case, outcome, atoms):
    """BaseEvolutionOperations.mergeable_ops reads ('add_column', 'change_column',
    'change_column_type', 'change_meta' 'delete_column'): the missing comma makes
    the last entry the single string 'change_metadelete_column', so delete_column
    and change_meta operations never share a rebuild with their neighbours."""
    case = _c03_case(case)
    if not any(m['kind'] in ('DeleteField', 'ChangeMeta') for m in case['seq']):
        return atoms
    return [a for a in atoms if a[0] != 'run_not_single_rewrite']


@explainer
def more_rebuilds_from_model_level_regrouping(case, outcome, atoms):
    """F-C03-4 seen through C18: in a batch with RenameModel/DeleteModel the
    optimiser regroups mutations by model *name*; a mutation written for another
    holder of a name lands on the renamed model's table and rebuilds it once
    more than the one-at-a-time run did."""
    flags, _trail_ = c03_flags(case, outcome)
    # ... and likewise the other findings in which the batch applies a mutation to the
    # wrong holder of a field name (F-C03-6 rename chains, F-C03-13 name reuse with a
    # delete): the batch executes different operations than the one-at-a-time run
    hit = {u for u, fl in flags.items()
           if fl & {'model_level', 'multi_rename', 'delete_name_reuse'}}
    if not hit:
        return atoms
    return [a for a in atoms
            if not (a[0] in ('b_more_rebuilds', 'e_more_rebuilds') and
                    ('*' in hit or a[1] in hit))]


@explainer
def field_name_reuse_with_delete(case, outcome, atoms):
    """A batch that deletes a field and in which some field name is both vacated
    (DeleteField / RenameField away) and occupied again (AddField / RenameField
    onto it): the optimiser's bookkeeping is keyed by (model, field name), so the
    DeleteField removes mutations of the *other* holder of the name (or the
    wrong field is deleted, or the batch is rejected)."""
    return _explain_by_flag('delete_name_reuse', case, outcome, atoms)


# ---------------------------------------------------------------------------
# C05
# ---------------------------------------------------------------------------

@explainer
def eq_compares_raw_attrs(case, outcome, atoms):
    """FieldSignature.__eq__ compares the raw field_attrs dictionaries while
    diff() applies attribute defaults: a signature that states a default
    explicitly (what AddField(..., null=False) or ChangeField(db_index=False)
    leave behind) has an empty diff with, but is unequal to, the signature that
    omits it."""
    return [a for a in atoms if not (a[0] == 'diff_empty_but_unequal' and
                                     str(a[2]).startswith('explicit_default:'))]


@explainer
def eq_is_set_based_diff_is_list_based(case, outcome, atoms):
    """ModelSignature.__eq__ compares index/constraint signatures as sets (and
    unique_together through has_unique_together_changed), diff() compares the
    lists in order: reordered Meta.indexes / Meta.constraints are equal yet have
    a non-empty diff."""
    import json
    import re
    from . import specs as S
    ops = {v['op'] for v in (case.get('variant') or [])}
    if ops & {'reverse_indexes', 'reverse_constraints', 'reverse_unique_together'}:
        atoms = [a for a in atoms if not (a[0] == 'equal_but_diff_nonempty' and
                                          str(a[1]).startswith('variant:') and 'reverse_' in a[1])]
    # the same through an evolution whose only effect on a model is to reorder
    # index_together / indexes / constraints
    try:
        trail = _trail(case)
    except Exception:
        return atoms
    start, final = trail[0], trail[-1]
    reordered = set()
    for a_, n, m1 in S.iter_models(final):
        m0 = S.get_model(start, a_, n)
        if m0 is None:
            continue
        for prop in ('index_together', 'indexes', 'constraints'):
            k0 = [json.dumps(x, sort_keys=True) for x in m0[prop]]
            k1 = [json.dumps(x, sort_keys=True) for x in m1[prop]]
            if k0 != k1 and sorted(k0) == sorted(k1):
                reordered.add(prop)
    if not reordered:
        return atoms
    out = []
    for a in atoms:
        if a[0] == 'equal_but_diff_nonempty' and len(a) > 2:
            props = set(re.findall(r"Meta property '(\w+)' has changed", str(a[2])))
            other = [ln for ln in str(a[2]).splitlines()
                     if ln.strip() and not ln.startswith('In model') and 'Meta property' not in ln]
            if props and props <= reordered and not other:
                continue
        out.append(a)
    return out


@explainer
def diff_ignores_table_and_pk_column(case, outcome, atoms):
    """ModelSignature.diff() does not look at table_name / pk_column (there is
    no mutation for them outside RenameModel) while __eq__ does: such
    signatures are unequal with an empty diff."""
    ops = {v['op'] for v in (case.get('variant') or [])}
    if not ops & {'table_name', 'pk_column'}:
        return atoms
    return [a for a in atoms if not (a[0] == 'diff_empty_but_unequal' and a[2] == 'model_meta' and
                                     ('table_name' in a[1] or 'pk_column' in a[1]))]


@explainer
def retargeted_relation_not_resolved(case, outcome, atoms):
    """A relation whose target model changes is hinted as
    ChangeField(related_model=...), whose simulate() stores the value in
    field_attrs instead of FieldSignature.related_model: the diff never becomes
    empty."""
    from . import specs as S
    trail = _trail(case)
    start, final = trail[0], trail[-1]
    trigger = False
    for a, n, m1 in S.iter_models(final):
        m0 = S.get_model(start, a, n)
        if m0 is None:
            continue
        for f1 in m1['fields']:
            f0 = S.get_field(m0, f1['name'])
            if f0 is not None and f0['target'] != f1['target']:
                trigger = True      # re-targeted, or relation <-> plain field under one name
    if not trigger:
        return atoms
    return [a for a in atoms if not (a[0] in ('closure_residual', 'closure_residual_reverse') and
                                     'related_model' in a[1])]


@explainer
def type_change_hint_assumes_attribute_reset(case, outcome, atoms):
    """For a field whose type changes the hint lists only the non-default
    attributes of the *new* definition (as if the type change reset all others),
    but ChangeField.simulate keeps the old field's attributes: attributes that
    the old definition set and the new one leaves at their default (unique,
    db_column, db_index, max_length, ...) stay in the simulated signature."""
    import re
    from . import specs as S
    trail = _trail(case)
    start, final = trail[0], trail[-1]
    stale = set()
    for a, n, m1 in S.iter_models(final):
        m0 = S.get_model(start, a, n)
        if m0 is None:
            continue
        for f1 in m1['fields']:
            f0 = S.get_field(m0, f1['name'])
            if f0 is None or f0['kind'] == f1['kind'] or \
                    'ManyToMany' in (f0['kind'], f1['kind']):
                continue
            for attr in ('unique', 'db_index', 'db_column', 'max_length', 'max_digits',
                         'decimal_places', 'null'):
                v0 = f0.get(attr)
                if f0['kind'] == 'OneToOne' and attr == 'unique':
                    v0 = True
                if v0 and not f1.get(attr):
                    stale.add(attr)
    if not stale:
        return atoms
    out = []
    for a in atoms:
        if a[0] in ('closure_residual', 'closure_residual_reverse'):
            m_ = re.search(r'props=([\w,]*)', str(a[1]))
            props = set(p for p in (m_.group(1).split(',') if m_ else []) if p)
            metas = re.search(r'metas=\s*(\S*)', str(a[1]))
            if props and props <= stale and not (metas and metas.group(1)):
                continue
        out.append(a)
    return out


# ---------------------------------------------------------------------------
# C06
# ---------------------------------------------------------------------------

def _q_has_tuple(v):
    if isinstance(v, dict):
        if v.get('t') == 'q':
            return _any_tuple(v)
        return any(_q_has_tuple(x) for x in v.values())
    if isinstance(v, (list, tuple)):
        return any(_q_has_tuple(x) for x in v)
    return False


def _any_tuple(v):
    if isinstance(v, dict):
        if v.get('t') == 'tuple':
            return True
        return any(_any_tuple(x) for x in v.values())
    if isinstance(v, (list, tuple)):
        return any(_any_tuple(x) for x in v)
    return False


@explainer
def tuples_inside_q_values_become_lists(case, outcome, atoms):
    """The stored JSON cannot represent tuples: a tuple used as a value inside a
    Q object (Q(a__in=(1, 2))) or as an expression argument is read back as a
    list, and Q.__eq__ / deconstruct() distinguish the two, so the read-back
    index condition / check constraint is unequal to the original and the
    'indexes' / 'constraints' diff is non-empty."""
    if not _q_has_tuple(case.get('extras') or []):
        return atoms
    out = []
    for a in atoms:
        if a[0] in ('rt_unequal', 'rt_diff_nonempty') and a[1] in ('json', 'version'):
            continue
        out.append(a)
    return out


# ---------------------------------------------------------------------------
# C13
# ---------------------------------------------------------------------------

def _contains_type(v, kinds):
    if isinstance(v, dict):
        if v.get('t') in kinds:
            return True
        return any(_contains_type(x, kinds) for x in v.values())
    if isinstance(v, (list, tuple)):
        return any(_contains_type(x, kinds) for x in v)
    return False


@explainer
def function_expressions_rendered_under_models(case, outcome, atoms):
    """DeconstructedSerialization.serialize_to_python writes every class whose
    path starts with django.db.models as models.<Name>; database functions
    (django.db.models.functions.Lower) are not attributes of that module."""
    if not _contains_type(case.get('muts') or [], ('lower',)):
        return atoms
    return [a for a in atoms if not (a[0] == 'load_failed' and a[1] == 'AttributeError' and
                                     "has no attribute 'Lower'" in a[2])]


def _wrap_under_conn(v, under_conn=False):
    if isinstance(v, dict):
        if v.get('t') == 'q':
            k = v.get('kind')
            if k == 'wrap' and under_conn:
                return True
            if k == 'conn':
                return any(_wrap_under_conn(c, True) for c in v['children'])
            if k in ('not', 'wrap'):
                return _wrap_under_conn(v['child'], False)
            return False
        return any(_wrap_under_conn(x, False) for x in v.values())
    if isinstance(v, (list, tuple)):
        return any(_wrap_under_conn(x, under_conn) for x in v)
    return False


def _spec_wrap_under_conn(v, under=False):
    """Same for the spec-level Q form ({'op': 'and'|'or'|'not'|'leaf', ...})."""
    if isinstance(v, dict):
        op = v.get('op')
        if op in ('and', 'or', 'xor') and 'children' in v:
            if len(v['children']) == 1 and under:
                return True
            multi = len(v['children']) >= 2
            return any(_spec_wrap_under_conn(c, multi) for c in v['children'])
        if op == 'not' and 'child' in v:
            return _spec_wrap_under_conn(v['child'], False)
        if op == 'leaf':
            return False
        return any(_spec_wrap_under_conn(x, False) for x in v.values())
    if isinstance(v, (list, tuple)):
        return any(_spec_wrap_under_conn(x, under) for x in v)
    return False


@explainer
def wrapper_q_squashed_on_load(case, outcome, atoms):
    """Operator syntax cannot re-create a single-child wrapper Q that sits
    directly inside a connector group: Q._combine squashes it on load."""
    if not (_wrap_under_conn(case.get('muts') or []) or
            _spec_wrap_under_conn([case.get('spec'), case.get('seq')])):
        return atoms
    # (the squashed constraint looks changed, is re-created, and a '%' literal in its
    # condition then runs into F-C01-12's formatting error: the loaded SQL fails)
    pct = _has_percent_literal([case.get('spec'), case.get('seq'), case.get('muts')])
    return [a for a in atoms
            if a[0] not in ('str_differs', 'value_differs', 'simulated_signature_differs',
                            'sql_differs') and
            not (pct and a[0] == 'loaded_sql_fails' and a[1] == 'TypeError' and
                 'not enough arguments for format string' in str(a[2]))]


# ---------------------------------------------------------------------------
# C04
# ---------------------------------------------------------------------------

def _has_percent_literal(v):
    if isinstance(v, dict):
        if v.get('op') == 'leaf':
            val = v.get('value')
            vals = val if isinstance(val, list) else [val]
            return any(isinstance(x, str) and '%' in x for x in vals)
        return any(_has_percent_literal(x) for x in v.values())
    if isinstance(v, (list, tuple)):
        return any(_has_percent_literal(x) for x in v)
    return False


@explainer
def percent_literal_in_model_creation_sql(case, outcome, atoms):
    """Creating a new model whose index condition / constraint contains a string
    literal with a percent sign fails: the collected CREATE statements are
    %-formatted again ("not enough arguments for format string")."""
    if not _has_percent_literal(case.get('history') or case.get('spec')):
        return atoms
    return [a for a in atoms if not (a[0] == 'run_failed' and a[2] == 'TypeError' and
                                     'collect_sql_schema_editor' in str(a[3]))]


# (F-C04-2, fresh install of a SEQUENCE that renames one model twice, no longer occurs since
# 42a84f0 - X-F-C04-2; its explainer is gone)


@explainer
def stored_signature_keeps_explicit_defaults(case, outcome, atoms):
    """F-C05-1 seen from the version table: simulating AddField/ChangeField
    leaves attributes that equal their default explicitly in the stored
    signature; both diffs with the models' signature are empty, == is False."""
    h = case.get('history') or {}
    if not any(m['kind'] in ('AddField', 'ChangeField') for s in h.get('steps', [])
               if s['type'] == 'evolve' for m in s['seq']):
        return atoms
    return [a for a in atoms if a[0] != 'stored_sig_unequal']


@explainer
def evolution_without_effect_never_recorded(case, outcome, atoms):
    """An evolution whose mutations leave the signature as it is (e.g. a
    ChangeMeta to the value the model already has) requires nothing on an
    installed database, so no run ever records its label, while a fresh install
    records the whole SEQUENCE: the sets of recorded labels differ by exactly
    those labels."""
    import json
    from . import history as H
    from . import refmodel as R
    h = case.get('history') or {}
    try:
        vers = H.versions(h)
    except Exception:
        return atoms
    noop = set()
    vi = 0
    for s_ in h.get('steps', []):
        vi += 1
        if s_['type'] != 'evolve':
            continue
        try:
            before = vers[vi - 1]['spec']
            after = R.apply_all(before, s_['seq'], strict=False)
            strip = lambda sp: json.dumps(  # noqa: E731
                {a: {n: {k: v for k, v in m.items()} for n, m in app['models'].items()}
                 for a, app in sp['apps'].items()}, sort_keys=True)
            if strip(before) == strip(after):
                noop.add((s_['app'], s_['label']))
        except Exception:
            continue
    import re

    def app_models(sp, app):
        return json.dumps((sp['apps'].get(app) or {}).get('models'), sort_keys=True)
    out = []
    for a in atoms:
        if a[0] == 'labels_differ' and not a[3] and a[2]:
            # ... or whose app, seen from the version the upgrade starts at, ends up exactly
            # where it was (a model added and deleted again in between)
            m_ = re.match(r'[a-z_]+?(\d+)$', str(a[1]))
            k = int(m_.group(1)) if m_ else None
            ok = True
            for x in a[2]:
                if tuple(x) in noop:
                    continue
                if k is not None and k < len(vers) and \
                        app_models(vers[k]['spec'], x[0]) == app_models(vers[-1]['spec'], x[0]):
                    continue
                ok = False
            if ok:
                continue
        out.append(a)
    return out


@explainer
def dependency_on_evolution_without_effect_in_history(case, outcome, atoms):
    """F-C12-2 along an upgrade path: an evolution without effect (see F-C04-9)
    contributes no node to the dependency graph; another app's evolution that was
    written after it and says so (AFTER_EVOLUTIONS) then fails the run with
    AssertionError '"evolution:<app>:<label>" was not found'."""
    import json
    from . import history as H
    from . import refmodel as R
    h = case.get('history') or {}
    try:
        vers = H.versions(h)
    except Exception:
        return atoms
    noop = set()
    vi = 0
    for s_ in h.get('steps', []):
        vi += 1
        if s_['type'] != 'evolve':
            continue
        try:
            before = vers[vi - 1]['spec']
            after = R.apply_all(before, s_['seq'], strict=False)
            if json.dumps(before['apps'], sort_keys=True) == \
                    json.dumps(after['apps'], sort_keys=True):
                noop.add('evolution:%s:%s' % (s_['app'], s_['label']))
        except Exception:
            continue
    if not noop:
        return atoms
    return [a for a in atoms
            if not (a[0] == 'run_failed' and a[2] == 'AssertionError' and
                    any(('"%s" was not found' % k) in str(a[4]) for k in noop))]


@explainer
def model_name_reused_after_delete_in_one_run(case, outcome, atoms):
    """A model is deleted by an evolution and a later release introduces a new
    model under the same name: upgraded in ONE run from before the deletion, the
    tool sees a model of that name on both sides, creates nothing, applies the
    DeleteModel (drops the table) and stores a signature without the model; only
    a second run creates the new model's table."""
    from . import specs as S
    h = case.get('history') or {}
    deleted = set()
    tables = set()
    for s_ in h.get('steps', []):
        if s_['type'] == 'evolve':
            for m in s_['seq']:
                if m['kind'] == 'DeleteModel':
                    deleted.add((m['app'], m['model']))
        elif (s_['app'], s_['model']['name']) in deleted:
            tables.add(S.table_of(s_['app'], s_['model']))
    if not tables:
        return atoms
    out = []
    for a in atoms:
        if str(a[1]).startswith(('direct', 'stepwise')):
            if a[0] == 'path_schema' and a[2] in tables and a[3] == 'table':
                continue
            if a[0] in ('stored_sig_diff_nonempty', 'second_run_requires_evolution',
                        'second_run_executed_sql', 'second_run_changed_state',
                        'stored_sig_unequal'):
                continue
        out.append(a)
    return out


@explainer
def table_name_reused_by_new_model_in_one_run(case, outcome, atoms):
    """The tables of new models (and of the ManyToManyFields they bring) are
    created before the pending evolutions of the same run are applied.  A table
    name that a pending evolution vacates (RenameField(..., db_table=...) of a
    ManyToManyField, RenameModel(..., db_table=...), DeleteModel, DeleteField of a
    ManyToManyField) and that a later release gives to a new model collides in a
    single-run upgrade from before the vacating evolution: 'table "x" already
    exists'.  Upgrading version by version works."""
    import re
    from . import history as H
    from . import specs as S
    h = case.get('history') or {}
    if not any(s_['type'] in ('new_model', 'new_app') for s_ in h.get('steps', [])):
        return atoms
    try:
        vers = H.versions(h)
    except Exception:
        return atoms

    def owners(spec):
        out = {}
        for a, _n, m in S.iter_models(spec):
            out[S.table_of(a, m)] = m.get('uid')
            for f in m['fields']:
                if f['kind'] == 'ManyToMany':
                    out[S.m2m_table_of(a, m, f)] = f.get('uid')
        return out
    own = [owners(v['spec']) for v in vers]
    last = own[-1]

    def excused(a):
        name = str(a[1])
        if a[0] != 'run_failed' or not (name.startswith('direct') and name[6:].isdigit()):
            return False
        i = int(name[6:])
        mt = re.search(r'table "([^"]+)" already exists', str(a[4]))
        if not mt or i >= len(own):
            return False
        t = mt.group(1)
        # the table exists at the start of the run under one holder and belongs to another
        # (newly created) holder in the latest version
        return t in own[i] and t in last and own[i][t] is not None and own[i][t] != last[t]
    return [a for a in atoms if not excused(a)]


@explainer
def rename_model_to_new_table_through_evolver(case, outcome, atoms):
    """RenameModel(..., db_table=<new name>) cannot be applied through the
    Evolver: the renamed model's table does not exist yet, so the Evolver
    creates it as a brand-new model first and the rename then fails with
    "there is already another table or index with this name"."""
    from . import specs as S
    h = case.get('history') or {}
    trigger = False
    for s_ in h.get('steps', []):
        if s_['type'] == 'evolve':
            for m in s_['seq']:
                if m['kind'] == 'RenameModel':
                    trigger = True
    if not trigger:
        return atoms
    return [a for a in atoms if not (a[0] == 'run_failed' and
                                     'there is already another table' in str(a[4]))]


@explainer
def rebuild_drops_meta_along_path(case, outcome, atoms):
    """F-C01-1 along an upgrade path: tables rebuilt by the path lack the
    Meta-derived indexes/constraints that a fresh install has."""
    info = outcome.get('path_info') or {}
    out = []
    # a later removal of a Meta group that an earlier rebuild of the same run already lost
    # fails with 'no such index' (same as in C01)
    h = case.get('history') or {}
    meta_model = False
    try:
        from . import history as H
        from . import specs as S
        for v in H.versions(h):
            for _a, _n, m in S.iter_models(v['spec']):
                if m['unique_together'] or m['index_together'] or m['indexes'] or \
                        m['constraints']:
                    meta_model = True
    except Exception:
        pass
    for a in atoms:
        if meta_model and a[0] == 'run_failed' and 'no such index' in str(a[-1]):
            continue
        if a[0] == 'path_schema' and a[3] in ('index', 'check') and a[5] == 'missing':
            reb = (info.get(a[1]) or {}).get('rebuilt') or []
            if a[2] in reb:
                continue
        out.append(a)
    return out


@explainer
def app_level_dependency_on_settled_app(case, outcome, atoms):
    """An evolution that declares AFTER_EVOLUTIONS = ['<app>'] (the whole app)
    fails graph finalisation with an AssertionError when that app has nothing
    pending in this run: its __first__/__last__ anchor nodes only exist while
    the app has pending evolutions or new models."""
    h = case.get('history') or {}
    grown = False
    trigger = False
    for s_ in h.get('steps', []):
        if s_['type'] != 'evolve':
            grown = True
        elif grown:
            trigger = True
    if not trigger:
        return atoms
    return [a for a in atoms if not (a[0] == 'run_failed' and a[2] == 'AssertionError' and
                                     '__last__" was not found' in str(a[4]))]


@explainer
def relation_to_app_installed_in_same_run(case, outcome, atoms):
    """Tasks are prepared (their mutations simulated) in INSTALLED_APPS order,
    before the dependency graph orders execution: an evolution that adds a
    relation to a model of an app that is installed in the same run, and that
    is listed later, cannot find that app's signature; likewise a relation to a
    model that an existing, later-listed app gains in the same run (that app's
    own prepare() is what adds the new model's signature)."""
    h = case.get('history') or {}
    new_apps = set()
    new_models = {}         # (app, model name) introduced by a later release of an existing app -> step
    trigger = False
    model_targets = {}
    for k_, s_ in enumerate(h.get('steps', [])):
        if s_['type'] == 'new_app':
            new_apps.add(s_['app'])
        elif s_['type'] == 'new_model':
            new_models[(s_['app'], s_['model']['name'])] = k_
        elif s_['type'] == 'evolve':
            for m in s_['seq']:
                if m['kind'] == 'AddField' and m['field'].get('target'):
                    tgt = tuple(m['field']['target'])
                    if tgt[0] in new_apps:
                        trigger = True
                    # the same for a model that an existing, later-prepared app gains in the
                    # same run: its signature is added by that app's own prepare()
                    if tgt in new_models and tgt[0] != m['app']:
                        model_targets['"%s.%s"' % tgt] = new_models[tgt]
    if not trigger and not model_targets:
        return atoms

    def excused(a):
        if a[0] != 'run_failed' or a[2] not in ('MissingSignatureError', 'CommandError'):
            return False
        if trigger and ('get_app_sig' in str(a[3]) or
                        'Unable to find an application signature' in str(a[4])):
            return True
        # only the single-run upgrade from a version that does not have the model yet
        # (version i has steps[:i] applied)
        name = str(a[1])
        if not (name.startswith('direct') and name[6:].isdigit()):
            return False
        return any(('Unable to find a model signature for %s' % t) in str(a[4]) and
                   int(name[6:]) <= k for t, k in model_targets.items())
    return [a for a in atoms if not excused(a)]


@explainer
def callable_initial_overwrites_column_along_path(case, outcome, atoms):
    """F-C02-1 along an upgrade path (ChangeField(null=False, initial=<callable>)
    overwrites every value of the column)."""
    from . import specs as S
    h = case.get('history') or {}
    names = set()
    for s_ in h.get('steps', []):
        if s_['type'] == 'evolve':
            for m in s_['seq']:
                if m['kind'] == 'ChangeField' and m['attrs'].get('null') is False and \
                        isinstance(m.get('initial'), dict) and 'callable' in m['initial']:
                    names.add(m['name'])
    if not names:
        return atoms
    # (the field may have been renamed before: its uid keeps the original name)
    cur = set(names)
    for s_ in reversed(h.get('steps', [])):
        if s_['type'] == 'evolve':
            for m in reversed(s_['seq']):
                if m['kind'] == 'RenameField' and m['new'] in cur:
                    cur.add(m['old'])
    names = cur
    return [a for a in atoms if not (a[0] == 'path_rows' and a[2] == 'value_changed' and
                                     str(a[4]).split('.')[-1] in names)]


# ---------------------------------------------------------------------------
# C07
# ---------------------------------------------------------------------------

@explainer
def bookkeeping_written_after_commit(case, outcome, atoms):
    """The evolution SQL is committed by its SQLExecutor before
    Evolver._save_project_sig() writes the Version/Evolution rows (and before
    post-migrate handlers write): a failure in those writes leaves the evolved
    schema in place with nothing recorded, and a retry meets an already evolved
    database."""
    return [a for a in atoms if not (len(a) > 1 and a[1] == 'bookkeeping')]


@explainer
def one_run_spans_several_transactions(case, outcome, atoms):
    """Model creation, each app's evolution batch and deferred SQL run in
    separate transactions inside one Evolver.evolve(): when a later one fails
    the earlier ones stay committed although nothing is recorded."""
    h = case.get('history') or {}
    apps = set()
    grown = False
    for s_ in h.get('steps', []):
        if s_['type'] == 'evolve':
            apps.add(s_['app'])
        else:
            grown = True
    if not (grown or len(apps) >= 2):
        return atoms
    return [a for a in atoms if a[0] not in ('state_changed_by_failed_run', 'retry_failed',
                                             'retry_differs_from_uninterrupted')]


# ---------------------------------------------------------------------------
# C12
# ---------------------------------------------------------------------------

@explainer
def missing_field_raises_raw_exception(case, outcome, atoms):
    """A mutation that names a field which does not exist (at that point) is
    lowered (mutate()) before it is simulated: DeleteField / RenameField hit
    'NoneType' object has no attribute 'field_type' and ChangeField raises
    FieldDoesNotExist, so the command ends in a traceback instead of an
    evolution error.  Nothing is executed and the database is untouched."""
    kind = (case.get('perturb') or {}).get('kind')
    if kind not in ('duplicate', 'swap', 'rename_field_arg', 'retarget_model', 'drop',
                    'rename_model_arg'):
        return atoms
    return [a for a in atoms if not (a[0] == 'rejected_without_command_error' and
                                     a[1] in ('AttributeError', 'FieldDoesNotExist'))]


@explainer
def mutation_on_unknown_model_silently_skipped(case, outcome, atoms):
    """get_app_pending_mutations() drops every mutation whose model is not among
    the models that changed between the stored and the current signature - also
    one that names a model which does not exist at all.  When the rest of the
    evolution still reaches the target (the dropped mutation was redundant, e.g.
    a ChangeField on a field a later DeleteField removes), the evolve command
    accepts an evolution that names a missing model.  (The same filter is how
    mutations for models routed to another database are skipped, C16.)"""
    kind = (case.get('perturb') or {}).get('kind')
    if kind not in ('rename_model_arg', 'rename_field_arg'):
        return atoms
    if any(a[0] in ('accepted_but_schema_differs', 'accepted_but_signature_differs')
           for a in atoms):
        return atoms
    if kind == 'rename_field_arg':
        # the same filter drops every mutation of a model that did not change between
        # the stored and the current signature - also one naming a field that does not
        # exist (the unperturbed evolution was without effect on that model)
        import json
        from . import history as H
        from . import specs as S
        try:
            vers = H.versions(case['history'])
            step = case['history']['steps'][0]
            p = case['perturb']
            mut = step['seq'][p['i'] % len(step['seq'])]
            m0 = S.get_model(vers[0]['spec'], mut['app'], mut['model'])
            m1 = S.get_model(vers[-1]['spec'], mut['app'], mut['model'])
        except Exception:
            return atoms
        if m0 is None or m1 is None or \
                json.dumps(m0, sort_keys=True) != json.dumps(m1, sort_keys=True):
            return atoms
        return [a for a in atoms if not (a[0] == 'accepted_but_must_be_rejected' and
                                         a[1] == 'rename_field_arg')]
    return [a for a in atoms if not (a[0] == 'accepted_but_must_be_rejected' and
                                     a[1] == 'rename_model_arg:missing')]


@explainer
def dependency_on_evolution_without_effect(case, outcome, atoms):
    """Same root cause as F-C04-6: only tasks that require evolution put nodes
    into the dependency graph.  When another app's evolution depends on an
    evolution whose mutations are all dropped/filtered out (so its task needs no
    evolution), graph finalisation dies with an AssertionError instead of the
    command reporting an evolution error."""
    h = case.get('history') or {}
    if len({s_['app'] for s_ in h.get('steps', []) if s_['type'] == 'evolve'}) < 2:
        return atoms
    return [a for a in atoms if not (a[0] == 'rejected_without_command_error' and
                                     a[1] == 'AssertionError' and 'graph.py' in str(a[2]))]


# ---------------------------------------------------------------------------
# C14
# ---------------------------------------------------------------------------

def _awkward_initial(init):
    if isinstance(init, dict):
        return 'datetime' in init or 'decimal' in init
    if isinstance(init, str):
        return any(ch in init for ch in "'\\%")
    return False


@explainer
def preview_parameters_are_not_sql_literals(case, outcome, atoms):
    """SQLExecutor.run_sql(capture=True) substitutes parameters with
    quote_sql_param(): strings are escaped with a backslash (it\\'s) instead of
    doubling the quote, and non-string values such as datetimes and Decimals
    are interpolated unquoted, so the previewed statement is not the statement
    (with its parameters) that execution binds."""
    h = case.get('history') or {}
    trigger = False
    for s_ in h.get('steps', []):
        if s_['type'] == 'evolve':
            for m in s_['seq']:
                if m['kind'] in ('AddField', 'ChangeField') and _awkward_initial(m.get('initial')):
                    trigger = True
    if not trigger:
        return atoms
    return [a for a in atoms if not (a[0] == 'preview_differs_from_execution' and a[2] == a[3])]


# ---------------------------------------------------------------------------
# C15
# ---------------------------------------------------------------------------

@explainer
def purge_deletes_models_in_signature_order(case, outcome, atoms):
    """F-C01-3 for purges / DeleteApplication: the app's models are deleted in
    signature order; when a model refers to another model of the same app that
    was deleted before it, building its MockModel raises
    MissingSignatureError and the whole purge fails."""
    from . import specs as S
    spec = case.get('spec') or {}
    victim = case.get('victim')
    app = (spec.get('apps') or {}).get(victim) or {'models': {}}
    trigger = False
    for n, m in app['models'].items():
        for f in m['fields']:
            if f['target'] and f['target'][0] == victim and f['target'][1] != n:
                trigger = True
    if not trigger:
        return atoms
    return [a for a in atoms if not (a[0] == 'run_failed' and
                                     'Unable to find a model signature' in str(a[4]))]


# ---------------------------------------------------------------------------
# C09
# ---------------------------------------------------------------------------

@explainer
def create_models_merged_ahead_of_evolutions(case, outcome, atoms):
    """EvolveAppTask._build_batches consolidates consecutive create-model and
    evolution nodes into one batch (a create-model batch is merged into the
    preceding evolutions batch although its comment says it cannot be), and
    execute_tasks runs a batch as: every model creation first, then each app's
    evolutions together, apps in order of first appearance.  The graph's order
    inside a batch is lost: an evolution ordered before a model creation, or
    before another app's evolution that shares a batch with an earlier evolution
    of its own app, is executed after it."""
    # only when the graph's own order is right and the execution is exactly the
    # batched form of it: then the consolidation alone accounts for the breach
    if any(a[0] in ('graph_order_breaks_requirement', 'execution_differs_from_batched_graph_order',
                    'graph_unit_missing', 'graph_unit_twice', 'no_graph_order_observed')
           for a in atoms):
        return atoms
    return [a for a in atoms
            if not (a[0] == 'requirement_broken' and a[1] == 'declared' and
                    a[2] in ('evo>create', 'evo>evo') and a[3] == 'same_batch')]


# ---------------------------------------------------------------------------
# C10
# ---------------------------------------------------------------------------

@explainer
def unmarked_initial_migration_runs_before_evolutions(case, outcome, atoms):
    """MoveToDjangoMigrations(mark_applied=[]) marks nothing, so the app's initial
    migration is an ordinary root migration: it goes into the pre-migration
    stage and is (soft-)applied and recorded *before* the app's pending
    evolutions run (the dependency the mutation generates only covers the
    marked migrations)."""
    if case.get('p') != 0 or (case.get('start') or [None])[0] != 'evo':
        return atoms
    return [a for a in atoms if a[0] != 'evolution_after_migration']
