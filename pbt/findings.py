"""Explainers for known findings (DESIGN.md section 6).

An explainer is a predicate over (case, outcome, atoms) that removes exactly
the atoms its root cause accounts for, and only when its trigger is present in
the case.  known_findings.json entries with status "open" name one explainer
each; entries with status "fixed" have none (the check passes only because the
tree is repaired).
"""

EXPLAINERS = {}


def explainer(fn):
    EXPLAINERS[fn.__name__] = fn
    return fn


# ---------------------------------------------------------------------------
# helpers
# ---------------------------------------------------------------------------

def _trail(case):
    from . import refmodel as R
    from . import mutgen
    import copy
    spec = mutgen.ensure_uids(copy.deepcopy(case['spec']))
    trail = [spec]
    mutgen.ensure_seq_uids(case['seq'])
    for m in case['seq']:
        spec = R.apply(spec, m, strict=False)
        trail.append(spec)
    return trail


def _table_history(trail):
    """final table name -> set of every name that model's table had."""
    from . import specs as S
    names = {}
    for sp in trail:
        for a, n, m in S.iter_models(sp):
            names.setdefault(m['uid'], set()).add(S.table_of(a, m))
    out = {}
    for a, n, m in S.iter_models(trail[-1]):
        out[S.table_of(a, m)] = names.get(m['uid'], set())
    return out


def _meta_derived(final_spec):
    """table -> {'index': [[unique, cols, name]...], 'check': [name|col...]}
    for everything that derives from Meta options or PositiveInteger."""
    from . import specs as S
    out = {}
    for a, n, m in S.iter_models(final_spec):
        t = S.table_of(a, m)
        idx, chk = [], []

        def cols_of(names):
            res = []
            for nm in names:
                desc = nm.startswith('-')
                f = S.get_field(m, nm.lstrip('-'))
                res.append([S.column_of(f) if f else nm, desc])
            return res
        for tup in m['unique_together']:
            idx.append([True, cols_of(tup), None])
        for tup in m['index_together']:
            idx.append([False, cols_of(tup), None])
        for ix in m['indexes']:
            idx.append([False, cols_of(ix['fields']), ix.get('name')])
        for c in m['constraints']:
            if c['type'] == 'unique':
                idx.append([True, cols_of(c['fields']), c['name']])
            else:
                chk.append(c['name'])
        for f in m['fields']:
            if f['kind'] == 'PositiveInteger':
                chk.append('%s >= 0' % S.column_of(f))
        out[t] = {'index': idx, 'check': chk}
    return out


# ---------------------------------------------------------------------------
# F-C01-1
# ---------------------------------------------------------------------------

@explainer
def sqlite_rebuild_drops_meta(case, outcome, atoms):
    """A table rebuilt in this run (CREATE TABLE "TEMP_TABLE" ... RENAME TO t)
    is missing exactly index/check atoms that derive from the model's Meta
    options (unique_together, index_together, indexes, constraints) or from a
    PositiveIntegerField's inline CHECK."""
    res = outcome.get('res') or {}
    rebuilds = res.get('rebuilds') or {}
    final = res.get('final_spec')
    if not rebuilds or final is None:
        return atoms
    hist = _table_history(_trail(case))
    derived = _meta_derived(final)
    remaining = []
    for a in atoms:
        if a[0] == 'schema' and a[4] == 'missing' and a[2] in ('index', 'check'):
            t = a[1]
            names = hist.get(t, {t})
            if any(nm in rebuilds for nm in names) and t in derived:
                if a[2] == 'index':
                    unique, cols, _where, name = a[3]
                    hit = None
                    for d in derived[t]['index']:
                        if d[0] == unique and d[1] == [list(c) for c in cols] and \
                                (d[2] == name or (unique and name is None)):
                            hit = d
                            break
                    if hit is not None:
                        derived[t]['index'].remove(hit)
                        continue
                else:
                    name, expr = a[3]
                    key = name if name is not None else expr
                    if key in derived[t]['check']:
                        derived[t]['check'].remove(key)
                        continue
        remaining.append(a)
    return remaining


# ---------------------------------------------------------------------------
# F-C01-2
# ---------------------------------------------------------------------------

@explainer
def rename_model_owning_m2m_crashes(case, outcome, atoms):
    """RenameModel of a model that itself declares a ManyToManyField raises
    MissingSignatureError while building the MockModel for the new name."""
    from . import specs as S
    if case.get('mode') == 'hinted':
        return atoms
    trigger = False
    trail = _trail(case)
    for i, mut in enumerate(case['seq']):
        if mut['kind'] == 'RenameModel':
            m = S.get_model(trail[i], mut['app'], mut['old'])
            if m and any(f['kind'] == 'ManyToMany' for f in m['fields']):
                trigger = True
    if not trigger:
        return atoms
    return [a for a in atoms
            if not (a[0] == 'exception' and a[2] == 'MissingSignatureError' and
                    a[3] == 'signature.py:get_model_sig')]


# ---------------------------------------------------------------------------
# F-C01-3
# ---------------------------------------------------------------------------

@explainer
def hint_deletes_referenced_model_first(case, outcome, atoms):
    """Diff.evolution() lists DeleteModel mutations in signature order, not in
    dependency order: deleting the referenced model first makes the next
    DeleteModel (of the referencing model) raise MissingSignatureError."""
    from . import specs as S
    trail = _trail(case)
    start, final = trail[0], trail[-1]
    trigger = False
    if case.get('mode') == 'hinted':
        deleted = [(a, n) for a, n, m in S.iter_models(start)
                   if S.get_model(final, a, n) is None]
        for a, n in deleted:
            for ra, rn, _f in S.relations_to(start, a, n):
                # the referring field must go too (model or field deleted/retargeted):
                # whichever mutation does that may run after this DeleteModel
                if (ra, rn) != (a, n):
                    trigger = True
    else:
        # DeleteApplication runs DeleteModel for the app's models in signature order
        for i, mut in enumerate(case['seq']):
            if mut['kind'] == 'DeleteApplication':
                app = trail[i]['apps'].get(mut['app'], {'models': {}})
                for n, m in app['models'].items():
                    for f in m['fields']:
                        if f['target'] and f['target'][0] == mut['app'] and f['target'][1] != n:
                            trigger = True
    if not trigger:
        return atoms
    return [a for a in atoms
            if not (a[0] == 'exception' and a[2] == 'MissingSignatureError' and
                    a[3] == 'signature.py:get_model_sig')]


# ---------------------------------------------------------------------------
# F-C01-4
# ---------------------------------------------------------------------------

@explainer
def rename_model_leaves_m2m_through_names(case, outcome, atoms):
    """RenameModel renames only the model's own table: auto-created
    many-to-many tables keep their old table name and old <model>_id column
    names (a fresh database derives both from the new model name/table)."""
    from . import specs as S
    if case.get('mode') == 'hinted':
        return atoms
    trail = _trail(case)
    renamed = set()
    for i, mut in enumerate(case['seq']):
        if mut['kind'] == 'RenameModel':
            m = S.get_model(trail[i], mut['app'], mut['old'])
            if m:
                renamed.add(m['uid'])
    if not renamed:
        return atoms
    tables = set()
    for sp in trail:
        for a, n, m in S.iter_models(sp):
            for f in m['fields']:
                if f['kind'] != 'ManyToMany':
                    continue
                tgt = S.get_model(sp, *f['target'])
                if m['uid'] in renamed or (tgt is not None and tgt['uid'] in renamed):
                    tables.add(S.m2m_table_of(a, m, f))
    return [a for a in atoms if not (a[0] == 'schema' and a[1] in tables)]


# ---------------------------------------------------------------------------
# F-C01-5
# ---------------------------------------------------------------------------

@explainer
def index_identity_by_columns_only(case, outcome, atoms):
    """The index bookkeeping identifies an index by its column list alone
    (DatabaseState.find_index(columns)).  When two index-like objects of one
    table cover the same columns (field db_index/unique, *_together group,
    Meta.indexes entry, unique constraint) creating one is skipped because the
    other "already exists", and dropping one drops (or tries to drop) the
    other."""
    from . import specs as S
    trail = _trail(case)
    overlap = {}          # final table name -> set of frozenset(column names)
    names_of = {}
    for sp in trail:
        for a, n, m in S.iter_models(sp):
            names_of.setdefault(m['uid'], set()).add(S.table_of(a, m))
            objs = S.index_objects(m)
            for o in set(objs):
                if objs.count(o) > 1:
                    cols = set()
                    for fn in o:
                        f = S.get_field(m, fn)
                        if f is not None:
                            cols.add(f['uid'])
                    overlap.setdefault(m['uid'], set()).add(frozenset(cols))
    if not overlap:
        return atoms
    final = trail[-1]
    bycol = {}            # table -> list of sets of final column names
    tables = set()
    for a, n, m in S.iter_models(final):
        if m['uid'] in overlap:
            t = S.table_of(a, m)
            tables |= names_of[m['uid']]
            for uids in overlap[m['uid']]:
                cols = {S.column_of(f) for f in m['fields'] if f['uid'] in uids}
                bycol.setdefault(t, []).append(cols)
    out = []
    for a in atoms:
        if a[0] == 'schema' and a[2] == 'index' and a[1] in bycol:
            cols = {c[0] for c in a[3][1]}
            if any(cols == want or None in cols for want in bycol[a[1]]):
                continue
        if a[0] == 'exception' and a[2] == 'OperationalError' and 'no such index' in a[4]:
            continue
        out.append(a)
    return out


# ---------------------------------------------------------------------------
# F-C01-6
# ---------------------------------------------------------------------------

@explainer
def change_db_column_and_db_index_together(case, outcome, atoms):
    """One ChangeField carrying both db_column and db_index=True renames the
    column first and then creates the index on the *old* column name (which
    SQLite parses as a string literal: an expression index on a constant)."""
    from . import specs as S
    trail = _trail(case)
    start, final = trail[0], trail[-1]
    hit = {}
    if case.get('mode') == 'hinted':
        olds = {}
        for a, n, m in S.iter_models(start):
            for f in m['fields']:
                olds[f['uid']] = f
        for a, n, m in S.iter_models(final):
            for f in m['fields']:
                o = olds.get(f['uid'])
                if o and f['kind'] != 'ManyToMany' and S.column_of(o) != S.column_of(f) and \
                        f['db_index'] and not o['db_index'] and o['kind'] == f['kind']:
                    hit[(S.table_of(a, m), S.column_of(f))] = S.column_of(o)
    else:
        for i, mut in enumerate(case['seq']):
            if mut['kind'] == 'ChangeField' and not mut.get('field_kind') and \
                    mut['attrs'].get('db_index') is True and 'db_column' in mut['attrs']:
                m0 = S.get_model(trail[i], mut['app'], mut['model'])
                f0 = S.get_field(m0, mut['name'])
                uid = f0['uid']
                for a, n, m in S.iter_models(final):
                    for f in m['fields']:
                        if f['uid'] == uid and f['db_index'] and f['kind'] != 'ManyToMany':
                            hit[(S.table_of(a, m), S.column_of(f))] = S.column_of(f0)
    if not hit:
        return atoms
    out = []
    for a in atoms:
        if a[0] == 'exception' and a[2] == 'OperationalError' and 'error in index' in a[4] \
                and 'no such column' in a[4]:
            continue        # a later column rename trips over the bogus index
        if a[0] == 'schema' and a[2] == 'index' and len(a[3][1]) == 1 and not a[3][0]:
            col = a[3][1][0][0]
            if a[4] == 'missing' and (a[1], col) in hit:
                continue
            if a[4] == 'extra' and col is None and any(t == a[1] for t, _c in hit):
                continue
        out.append(a)
    return out


# ---------------------------------------------------------------------------
# F-C01-7
# ---------------------------------------------------------------------------

@explainer
def type_change_with_column_rename(case, outcome, atoms):
    """A ChangeField that changes the field type *and* (through the attribute
    reset a type change implies) the column name produces a rebuild whose
    INSERT still names the old column: "table TEMP_TABLE has no column named"."""
    from . import specs as S
    trail = _trail(case)
    start, final = trail[0], trail[-1]
    trigger = False
    if case.get('mode') == 'hinted':
        for a, n, m in S.iter_models(final):
            m0 = S.get_model(start, a, n)
            if m0 is None:
                continue
            for f in m['fields']:
                f0 = S.get_field(m0, f['name'])
                if f0 and f0['kind'] != f['kind'] and 'ManyToMany' not in (f0['kind'], f['kind']) \
                        and S.column_of(f0) != S.column_of(f):
                    trigger = True
    else:
        for i, mut in enumerate(case['seq']):
            if mut['kind'] == 'ChangeField' and mut.get('field_kind'):
                f0 = S.get_field(S.get_model(trail[i], mut['app'], mut['model']), mut['name'])
                f1 = S.get_field(S.get_model(trail[i + 1], mut['app'], mut['model']), mut['name'])
                if f0 and f1 and S.column_of(f0) != S.column_of(f1):
                    trigger = True
    if not trigger:
        return atoms
    return [a for a in atoms
            if not (a[0] == 'exception' and a[2] == 'OperationalError' and
                    'TEMP_TABLE has no column named' in a[4])]


# ---------------------------------------------------------------------------
# F-C01-8
# ---------------------------------------------------------------------------

@explainer
def m2m_rename_keeps_index_names(case, outcome, atoms):
    """RenameField on a ManyToManyField renames the through table but not its
    (globally named) indexes; adding a new ManyToManyField under the old name
    then fails with "index ... already exists"."""
    from . import specs as S
    trail = _trail(case)
    old = set()
    trigger = False
    for i, mut in enumerate(case['seq']):
        if mut['kind'] == 'RenameField':
            m = S.get_model(trail[i], mut['app'], mut['model'])
            f = S.get_field(m, mut['old']) if m else None
            if f and f['kind'] == 'ManyToMany':
                old.add((m['uid'], mut['old']))
        if mut['kind'] == 'AddField' and mut['field']['kind'] == 'ManyToMany':
            m = S.get_model(trail[i], mut['app'], mut['model'])
            if m and (m['uid'], mut['field']['name']) in old:
                trigger = True
    if not trigger:
        return atoms
    return [a for a in atoms if not (a[0] == 'exception' and a[2] == 'OperationalError' and
                                     'already exists' in a[4] and 'index' in a[4])]


# ---------------------------------------------------------------------------
# F-C01-9
# ---------------------------------------------------------------------------

@explainer
def db_index_false_with_rebuild_in_one_change(case, outcome, atoms):
    """A single ChangeField that sets db_index=False together with an attribute
    that rebuilds the table (unique, null, max_length, ...): the index is
    dropped before the rebuild and then re-created by it, because the rebuilt
    field object still says db_index=True."""
    from . import specs as S
    trail = _trail(case)
    final = trail[-1]
    cols = set()
    if case.get('mode') == 'hinted':
        olds = {f['uid']: f for a, n, m in S.iter_models(trail[0]) for f in m['fields']}
        for a, n, m in S.iter_models(final):
            for f in m['fields']:
                o = olds.get(f['uid'])
                if o and o['kind'] == f['kind'] and o['db_index'] and not f['db_index'] and \
                        any(o[k] != f[k] for k in ('unique', 'null', 'max_length', 'max_digits',
                                                   'decimal_places')):
                    cols.add((S.table_of(a, m), S.column_of(f)))
    else:
        for i, mut in enumerate(case['seq']):
            if mut['kind'] == 'ChangeField' and not mut.get('field_kind') and \
                    mut['attrs'].get('db_index') is False and \
                    set(mut['attrs']) & {'unique', 'null', 'max_length', 'max_digits',
                                         'decimal_places'}:
                m0 = S.get_model(trail[i], mut['app'], mut['model'])
                uid = S.get_field(m0, mut['name'])['uid']
                for a, n, m in S.iter_models(final):
                    for f in m['fields']:
                        if f['uid'] == uid and f['kind'] != 'ManyToMany':
                            cols.add((S.table_of(a, m), S.column_of(f)))
    if not cols:
        return atoms
    out = []
    for a in atoms:
        if a[0] == 'schema' and a[2] == 'index' and a[4] == 'extra' and not a[3][0] and \
                len(a[3][1]) == 1 and (a[1], a[3][1][0][0]) in cols:
            continue
        out.append(a)
    return out


# ---------------------------------------------------------------------------
# F-C01-10
# ---------------------------------------------------------------------------

@explainer
def hint_changes_m2m_into_column(case, outcome, atoms):
    """When a ManyToManyField is replaced by a column field of the same name (or
    vice versa) the hint is a ChangeField(field_type=...): the through table is
    never dropped/created and the column never added/removed."""
    from . import specs as S
    if case.get('mode') != 'hinted':
        return atoms
    trail = _trail(case)
    start, final = trail[0], trail[-1]
    tables = set()
    for a, n, m in S.iter_models(final):
        m0 = S.get_model(start, a, n)
        if m0 is None:
            continue
        for f in m['fields']:
            f0 = S.get_field(m0, f['name'])
            if f0 and (f0['kind'] == 'ManyToMany') != (f['kind'] == 'ManyToMany'):
                tables.add(S.table_of(a, m))
                tables.add(S.table_of(a, m0))
                for x, mm in ((f0, m0), (f, m)):
                    if x['kind'] == 'ManyToMany':
                        tables.add(S.m2m_table_of(a, mm, x))
    if not tables:
        return atoms
    return [a for a in atoms if not (a[0] == 'schema' and a[1] in tables) and
            not (a[0] == 'exception')]


# ---------------------------------------------------------------------------
# F-C01-11
# ---------------------------------------------------------------------------

@explainer
def hint_deletes_field_before_meta_cleanup(case, outcome, atoms):
    """Diff.evolution() orders DeleteField before the ChangeMeta that removes
    the field from index_together / indexes / constraints; the ChangeMeta (or
    the rebuild) then looks the deleted field up and raises
    FieldDoesNotExist."""
    from . import specs as S
    if case.get('mode') != 'hinted':
        return atoms
    trail = _trail(case)
    start, final = trail[0], trail[-1]
    trigger = False
    for a, n, m0 in S.iter_models(start):
        m1 = S.get_model(final, a, n)
        if m1 is None:
            continue
        mr = S.meta_field_refs(m0)
        names = mr['index_together'] | mr['indexes'] | mr['constraints']
        for f in m0['fields']:
            if f['name'] in names and all(g['uid'] != f['uid'] for g in m1['fields']):
                trigger = True
    if not trigger:
        return atoms
    return [a for a in atoms if not (a[0] == 'exception' and a[2] == 'FieldDoesNotExist')]


# ---------------------------------------------------------------------------
# F-C02-1
# ---------------------------------------------------------------------------

@explainer
def callable_initial_overwrites_column(case, outcome, atoms):
    """ChangeField(null=False, initial=<callable returning an SQL literal>) on
    SQLite copies the literal into *every* row of the column (the rebuild's
    SELECT uses the bare literal instead of coalesce(col, literal)); the
    repository's own test expectation encodes that SQL, so it is recorded, not
    repaired."""
    from . import specs as S
    trail = _trail(case)
    uids = set()
    for i, mut in enumerate(case['seq']):
        if mut['kind'] == 'ChangeField' and mut['attrs'].get('null') is False and \
                isinstance(mut.get('initial'), dict) and 'callable' in mut['initial']:
            m = S.get_model(trail[i], mut['app'], mut['model'])
            f = S.get_field(m, mut['name']) if m else None
            if f is not None:
                uids.add(f['uid'])
    if not uids:
        return atoms
    return [a for a in atoms
            if not (a[0] == 'rows' and a[1] == 'value_changed' and a[3] in uids)]
