"""Generated linear histories of project versions (DESIGN.md 3.4) and their
materialisation as project directories."""
import copy
import re
import os

from hypothesis import strategies as st

from . import specs as S
from . import mutgen
from . import refmodel as R
from . import project as P

AVOID = {'rename_model_m2m', 'multi_delete_hinted', 'index_cover', 'dbcol_dbindex',
         'delete_app_related', 'readd_name', 'dbindex_with_rebuild', 'hinted_delete_meta_field',
         'last_model', 'rename_model_new_table'}


@st.composite
def histories(draw, feats=None, max_steps=2, kinds=None, allow_new_model=True, allow_new_app=True,
              min_steps=1, max_len=4, apps=('pa', 'pb'), backfills=False):
    """{'v0': spec, 'steps': [{'type': 'evolve', 'app': label, 'label': str, 'seq': [...]} |
                              {'type': 'new_model', 'app': label, 'model': ModelSpec} |
                              {'type': 'new_app', 'app': label, 'model': ModelSpec}]}"""
    feats = feats or S.Features(meta=False, positive=False)
    v0 = mutgen.ensure_uids(draw(S.project_specs(feats, apps=apps)))
    kinds = kinds or ['AddField', 'DeleteField', 'ChangeField', 'RenameField', 'ChangeMeta',
                      'DeleteModel', 'RenameModel']
    n = draw(st.integers(min_steps, max_steps))
    steps = []
    cur = v0
    for i in range(n):
        choices = ['evolve', 'evolve', 'evolve']
        if allow_new_model:
            choices.append('new_model')
        if allow_new_app and 'pc' not in cur['apps']:
            choices.append('new_app')
        if backfills:
            choices.append('backfill')
        typ = draw(st.sampled_from(choices))
        live_apps = [a for a in sorted(cur['apps']) if cur['apps'][a]['models']]
        if typ == 'backfill':
            # an evolution that leaves the signature alone: an SQLMutation that fills the
            # NULLs of a nullable integer column with a constant
            cands = [(a, n2, m, f) for a, n2, m in S.iter_models(cur) for f in m['fields']
                     if f['kind'] in ('Integer', 'BigInteger') and f['null'] and not f['unique']
                     and f['name'] not in S.all_meta_refs(m)]
            if not cands:
                continue
            app, _n2, m, f = draw(st.sampled_from(cands))
            k = 1 + sum(1 for x in steps if x['type'] == 'evolve' and x['app'] == app)
            steps.append({'type': 'evolve', 'app': app, 'label': 'e%d' % k, 'seq': [{
                'kind': 'SQLMutation', 'app': app, 'tag': 'backfill%d' % i,
                'sql': ['UPDATE "%s" SET "%s" = 7 WHERE "%s" IS NULL;'
                        % (S.table_of(app, m), S.column_of(f), S.column_of(f))],
                'backfill': {'model': m['uid'], 'field': f['uid'], 'value': 7}}]})
            continue
        if typ == 'evolve' and live_apps:
            app = draw(st.sampled_from(live_apps))
            opts = mutgen.WalkOpts(kinds=kinds, max_len=max_len, avoid=set(AVOID), only_apps=[app])
            seq, nxt = draw(mutgen.walks(cur, feats, opts))
            if not seq:
                continue
            # labels are per app (e1, e2, ...): different apps share evolution labels
            k = 1 + sum(1 for x in steps if x['type'] == 'evolve' and x['app'] == app)
            steps.append({'type': 'evolve', 'app': app, 'label': 'e%d' % k, 'seq': seq})
            cur = nxt
        else:
            if typ == 'new_app':
                app = 'pc'
            else:
                app = draw(st.sampled_from(sorted(cur['apps'])))
            used = {n2 for _a, n2, _m in S.iter_models(cur)}
            free = [x for x in S.MODEL_NAMES + mutgen.EXTRA_MODEL_NAMES if x not in used]
            if not free:
                continue
            name = draw(st.sampled_from(free))
            m = S.new_model(name)
            targets = [(a, n2) for a, n2, _m in S.iter_models(cur)]
            for j, fn in enumerate(draw(st.permutations(S.FIELD_NAMES))[:draw(st.integers(1, 3))]):
                f = draw(S.field_specs(fn, feats, targets))
                f['uid'] = 'nm%d.%s.%s' % (i, name, fn)
                m['fields'].append(f)
            m['uid'] = 'nm%d.%s' % (i, name)
            if S.table_of(app, m) in S.all_tables(cur):
                continue            # e.g. a renamed model kept the table name this one defaults to
            nxt = copy.deepcopy(cur)
            S.add_model(nxt, app, m)
            try:
                S._fix_collisions(nxt)
                R.validate(nxt)
            except (R.RefInvalid, AssertionError):
                continue
            steps.append({'type': typ, 'app': app, 'model': copy.deepcopy(
                S.get_model(nxt, app, name))})
            cur = nxt
    return {'v0': v0, 'steps': steps}


def versions(history):
    """[V0, V1, ...]: each {'spec':, 'apps': [...], 'evolutions': {app: [...]}}."""
    spec = mutgen.ensure_uids(copy.deepcopy(history['v0']))
    apps = sorted(spec['apps'])
    evolutions = {a: [] for a in apps}
    deps = {}
    grown = set()
    renamed_uids = {}
    out = [{'spec': spec, 'apps': list(apps), 'evolutions': copy.deepcopy(evolutions),
            'deps': {}}]
    for si, st_ in enumerate(history['steps']):
        spec = copy.deepcopy(spec)
        if st_['type'] == 'evolve':
            mutgen.ensure_seq_uids(st_['seq'])
            # every step's walk numbers its new fields add1, add2, ...: make the uids unique
            # over the whole history (rows and kinds are looked up by uid)
            for m_ in st_['seq']:
                if m_['kind'] == 'AddField' and re.match(r'add\d+$', str(m_['field'].get('uid'))):
                    renamed_uids[m_['field']['uid']] = 'h%d_%s' % (si, m_['field']['uid'])
                    m_['field']['uid'] = renamed_uids[m_['field']['uid']]
                if m_['kind'] == 'SQLMutation' and m_.get('backfill') and \
                        m_['backfill']['field'] in renamed_uids:
                    m_['backfill']['field'] = renamed_uids[m_['backfill']['field']]
            spec = R.apply_all(spec, st_['seq'], strict=True)
            # a linear history: this evolution was written when every other app was at its
            # latest evolution - the developer declares that (AFTER_EVOLUTIONS)
            after = [[a, evolutions[a][-1]['label']] for a in sorted(evolutions)
                     if a != st_['app'] and evolutions[a]]
            # ... and had every model that existed then (bare app label = the whole app)
            after += [a for a in sorted(grown) if a != st_['app']]
            if after:
                deps.setdefault(st_['app'], {}).setdefault('per_evolution', {})[st_['label']] = \
                    {'AFTER_EVOLUTIONS': after}
            evolutions.setdefault(st_['app'], []).append(
                {'label': st_['label'], 'mutations': st_['seq']})
        else:
            S.add_model(spec, st_['app'], copy.deepcopy(st_['model']))
            mutgen.ensure_uids(spec)
            grown.add(st_['app'])
            if st_['app'] not in apps:
                apps = apps + [st_['app']]
                evolutions.setdefault(st_['app'], [])
        out.append({'spec': spec, 'apps': list(apps), 'evolutions': copy.deepcopy(evolutions),
                    'deps': copy.deepcopy(deps)})
    # "after the whole app" means after every evolution that app will ever have: once the
    # app gains an evolution written later (which itself comes after this one) the pair
    # would be a cycle, so such a declaration is only kept while it can be met
    order = {}
    for i, st_ in enumerate(history['steps']):
        if st_['type'] == 'evolve':
            order[(st_['app'], st_['label'])] = i
    for v in out:
        for app, d in v['deps'].items():
            for label, pe in (d.get('per_evolution') or {}).items():
                mine = order.get((app, label), -1)
                keep = []
                for t in pe.get('AFTER_EVOLUTIONS', []):
                    if isinstance(t, str) and any(
                            order.get((t, e['label']), -1) > mine
                            for e in v['evolutions'].get(t, [])):
                        continue
                    keep.append(t)
                pe['AFTER_EVOLUTIONS'] = keep
    return out


def pending_sequence(history, i, j=None):
    """Concatenated mutation sequence of steps i..j (exclusive of new models)."""
    seq = []
    for st_ in history['steps'][i:j]:
        if st_['type'] == 'evolve':
            seq += st_['seq']
    return seq


def reference_start(history, vers, i):
    """V_i plus every model that later steps introduce (added up front, without
    rows) so that the reference model can replay the pending mutations of
    steps i.. on one spec."""
    spec = copy.deepcopy(vers[i]['spec'])
    for st_ in history['steps'][i:]:
        if st_['type'] != 'evolve':
            if S.get_model(spec, st_['app'], st_['model']['name']) is None:
                S.add_model(spec, st_['app'], copy.deepcopy(st_['model']))
    return mutgen.ensure_uids(spec)


def write_versions(scratch, vers, extra=None):
    dirs = []
    for i, v in enumerate(vers):
        d = os.path.join(scratch.path, 'v%d' % i)
        ver = {'apps': v['apps'], 'spec': v['spec'], 'evolutions': v['evolutions'],
               'deps': v.get('deps') or {}, 'migrations': v.get('migrations') or {},
               'app_modules': v.get('app_modules') or {}}
        if extra:
            ver.update(extra)
        P.write_project(d, ver)
        dirs.append(d)
    return dirs


def history_candidates(case, key='history'):
    """Shrink candidates for cases holding a history."""
    h = case[key]
    for i in reversed(range(len(h['steps']))):
        c = copy.deepcopy(case)
        del c[key]['steps'][i]
        yield c
    for i, st_ in enumerate(h['steps']):
        if st_['type'] == 'evolve':
            for j in reversed(range(len(st_['seq']))):
                if len(st_['seq']) <= 1:
                    break
                c = copy.deepcopy(case)
                del c[key]['steps'][i]['seq'][j]
                yield c
    from . import shrink as SH
    proxy = {'spec': h['v0'], 'seq': []}
    for c2 in SH.spec_seq_candidates(proxy):
        c = copy.deepcopy(case)
        c[key]['v0'] = c2['spec']
        yield c
