"""In-process harness: run generated mutations through production code paths
(scanned DatabaseState, AppMutator, SQLExecutor) on in-memory SQLite."""
import itertools

from . import env, render, dbnorm
from . import specs as S


class Trace(object):
    """execute_wrapper recorder (+ optional fault injector)."""

    def __init__(self, fault_at=None):
        self.statements = []
        self.fault_at = fault_at
        self.n_change = 0

    def __call__(self, execute, sql, params, many, context):
        self.statements.append((sql, params))
        if is_change(sql):
            self.n_change += 1
            if self.fault_at is not None and self.n_change == self.fault_at:
                from django.db.utils import OperationalError
                raise OperationalError('injected fault #%d' % self.fault_at)
        return execute(sql, params, many, context)


CHANGE_WORDS = ('CREATE', 'DROP', 'ALTER', 'INSERT', 'UPDATE', 'DELETE', 'REPLACE', 'VACUUM')


def is_change(sql):
    s = sql.lstrip().upper()
    for w in CHANGE_WORDS:
        if s.startswith(w):
            return True
    if s.startswith('PRAGMA') and '=' in s and ('WRITABLE_SCHEMA' in s or 'SCHEMA_VERSION' in s):
        return True
    return False


def group_by_app(seq):
    """Consecutive mutations of the same app form one AppMutator run."""
    out = []
    for app, grp in itertools.groupby(seq, key=lambda m: m['app']):
        out.append((app, list(grp)))
    return out


def start_case(spec, alias='default', create=True):
    """Reset everything, build the start models in a private registry, create
    their tables and return (model_map, project_sig)."""
    env.reset_all()
    _reg, model_map = render.build_models(spec)
    if create:
        render.create_tables(list(model_map.values()), alias)
    sig = render.project_sig(model_map)
    return model_map, sig


def register_global(spec):
    """Register a spec's models in the global registry under pa..pe (what the
    repository's own register_app_models does)."""
    from django.apps import apps
    env.reset_registry()
    _reg, model_map = render.build_models(spec, registry=apps, module='pbt_target')
    apps.clear_cache()
    return model_map


def make_sql(sig, app, mutations, alias='default', state=None):
    """AppMutator over a DatabaseState scanned from the live database."""
    from django_evolution.db.state import DatabaseState
    from django_evolution.mutators import AppMutator
    if state is None:
        state = DatabaseState(alias)      # scan=True: as the Evolver does
    mutator = AppMutator(app_label=app, project_sig=sig, database_state=state,
                         database=alias)
    mutator.run_mutations(mutations)
    sql = mutator.to_sql()
    return mutator, sql


def execute_sql(sql, alias='default'):
    from django_evolution.utils.sql import SQLExecutor
    with SQLExecutor(alias, check_constraints=False) as executor:
        executor.run_sql(sql, execute=True)


def run_sequence(sig, seq, alias='default', one_at_a_time=False, trace=None):
    """Run a data-form sequence: one AppMutator per consecutive same-app group
    (or per mutation).  Mutation objects are built fresh.  Returns the final
    signature (sig is evolved in place, as the evolver does)."""
    from django.db import connections
    groups = [(m['app'], [m]) for m in seq] if one_at_a_time else group_by_app(seq)
    conn = connections[alias]
    for app, grp in groups:
        muts = [render.to_mutation(m) for m in grp]
        mutator, sql = make_sql(sig, app, muts, alias)
        if trace is not None:
            with conn.execute_wrapper(trace):
                execute_sql(sql, alias)
        else:
            execute_sql(sql, alias)
    return sig


def run_objects(sig, app, mutations, alias='default', trace=None):
    from django.db import connections
    mutator, sql = make_sql(sig, app, mutations, alias)
    if trace is not None:
        with connections[alias].execute_wrapper(trace):
            execute_sql(sql, alias)
    else:
        execute_sql(sql, alias)
    return mutator


def fresh_dump(spec, alias='aux'):
    """Schema of the spec's models created from scratch in `alias`."""
    env.reset_databases((alias,))
    _reg, model_map = render.build_models(spec)
    render.create_tables(list(model_map.values()), alias)
    return dbnorm.dump(dbnorm.django_exec(alias)), model_map


def simulate_sequence(sig, seq, alias='default'):
    """Acceptance filter: simulate one mutation at a time on a clone."""
    from django_evolution.db.state import DatabaseState
    sig = sig.clone()
    state = DatabaseState(alias, scan=False)
    for m in seq:
        mut = render.to_mutation(m)
        mut.run_simulation(app_label=m['app'], project_sig=sig, database_state=state,
                           database=alias)
    return sig


def rebuild_counts(statements):
    """table -> number of rebuilds, from a statement trace (DESIGN 4.3)."""
    import re
    counts = {}
    pending = 0
    for sql, _p in statements:
        s = sql.strip()
        if re.match(r'CREATE TABLE "TEMP_TABLE"', s):
            pending += 1
        m = re.match(r'ALTER TABLE "TEMP_TABLE" RENAME TO "([^"]+)"', s)
        if m and pending:
            counts[m.group(1)] = counts.get(m.group(1), 0) + 1
            pending -= 1
    return counts
