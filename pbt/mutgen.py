"""Strategies for mutation sequences (walk), target edits (hinted), rows.

All choices go through `draw` so Hypothesis can shrink.  See DESIGN.md 3.2-3.6.
"""
import copy

from hypothesis import strategies as st

from . import specs as S
from . import refmodel as R

EXTRA_FIELD_NAMES = ['e', 'f', 'g', 'title']
EXTRA_MODEL_NAMES = ['Tome', 'Zed']


def ensure_uids(spec):
    for a, n, m in S.iter_models(spec):
        m.setdefault('uid', '%s.%s' % (a, n))
        for f in m['fields']:
            f.setdefault('uid', '%s.%s.%s' % (a, n, f['name']))
    return spec


def ensure_seq_uids(seq):
    for i, m in enumerate(seq):
        if m['kind'] == 'AddField':
            m['field'].setdefault('uid', 'add%d' % i)
    return seq


# -- initial values ----------------------------------------------------------

@st.composite
def initial_for(draw, f, allow_callable=True):
    """A mutation-level initial value (data form) for field spec f."""
    kind = f['kind']
    if kind == 'Char':
        ml = f['max_length'] or 20
        v = draw(st.sampled_from(['', 'x', "it's", '50%', '%s', 'a"b', 'back\\slash', 'é']))
        v = v[:ml]
        if allow_callable and draw(st.integers(0, 5)) == 0:
            return {'callable': "'lit'"}
        return v
    if kind == 'Text':
        return draw(st.sampled_from(['', 'text', "it's 100% \"quoted\"", '%s %d']))
    if kind in ('Integer', 'BigInteger'):
        if allow_callable and draw(st.integers(0, 5)) == 0:
            return {'callable': '7 + 1'}
        return draw(st.sampled_from([0, 1, -1, 42, 2147483647, -2147483648]))
    if kind == 'PositiveInteger':
        return draw(st.sampled_from([0, 1, 42, 2147483647]))
    if kind == 'Boolean':
        return draw(st.booleans())
    if kind == 'Decimal':
        return {'decimal': draw(st.sampled_from(['0', '1.5', '-2.25', '10']))}
    if kind == 'DateTime':
        return {'datetime': draw(st.sampled_from(['2020-01-02T03:04:05+00:00',
                                                  '1999-12-31T23:59:59+00:00']))}
    if kind in ('ForeignKey', 'OneToOne'):
        return 1
    raise ValueError(kind)


# -- walk ---------------------------------------------------------------------

class WalkOpts(object):
    def __init__(self, **kw):
        self.kinds = ['AddField', 'DeleteField', 'ChangeField', 'RenameField',
                      'ChangeMeta', 'RenameModel', 'DeleteModel', 'DeleteApplication']
        self.type_changes = True
        self.min_len = 1
        self.max_len = 6
        self.unique_changes = True
        self.barriers = False
        # triggers of confirmed findings to avoid by construction (DESIGN 6)
        self.avoid = set()
        self.hinted = False
        self.retarget = False
        self.pk_rename = False
        self.only_apps = None        # restrict the walk to these app labels
        for k, v in kw.items():
            assert hasattr(self, k), k
            setattr(self, k, v)


def _free_field_name(m, banned=()):
    used = {f['name'] for f in m['fields']} | {'id', S.pk_of(m)} | set(banned)
    return [n for n in S.FIELD_NAMES + EXTRA_FIELD_NAMES if n not in used]


def _banned_names(spec, m, opts):
    if 'readd_name' in opts.avoid:
        if opts.hinted:
            return spec.get('_deleted_names', {}).get(m['uid'], [])
        return spec.get('_old_m2m_names', {}).get(m['uid'], [])
    return ()


@st.composite
def draw_meta_value(draw, spec, m, prop, feats, prefix):
    tmp = copy.deepcopy(m)
    for p in ('unique_together', 'index_together', 'indexes', 'constraints'):
        tmp[p] = []
    used = S.used_names(spec)
    cols = [f for f in m['fields'] if f['kind'] != 'ManyToMany']
    names = [f['name'] for f in cols]
    if prop in ('unique_together', 'constraints'):
        # rows filled with one initial value are not distinct: keep them out of
        # *new* uniqueness groups (a data error, not a tool defect)
        names = [f['name'] for f in cols if f['uid'] not in spec.get('_filled', ())
                 and f['kind'] != 'Boolean']
    if not names or draw(st.integers(0, 4)) == 0:
        return []

    def subset(lo, hi):
        return draw(st.lists(st.sampled_from(names), min_size=min(lo, len(names)),
                             max_size=min(hi, len(names)), unique=True))

    def fresh(base):
        i = 0
        while True:
            n = '%s_%s%s' % (prefix, base, i or '')
            if n not in used:
                used.add(n)
                return n
            i += 1
    if prop in ('unique_together', 'index_together'):
        if len(names) < 2:
            return []
        out = []
        # keep some of the old groups, add new ones
        for t in m[prop]:
            if draw(st.booleans()):
                out.append(list(t))
        for _ in range(draw(st.integers(0, 2))):
            t = subset(2, 3)
            if sorted(t) not in [sorted(x) for x in out]:
                out.append(t)
        return out
    if prop == 'indexes':
        out = []
        for ix in m['indexes']:
            if draw(st.booleans()):
                out.append(copy.deepcopy(ix))
        for _ in range(draw(st.integers(0, 2))):
            flds = subset(1, 2)
            flds = [('-' + n if draw(st.integers(0, 3)) == 0 else n) for n in flds]
            named = (not feats.unnamed_indexes) or draw(st.integers(0, 3)) != 0
            ix = {'name': fresh('ix') if named else None, 'fields': flds, 'condition': None}
            leafable = [f for f in cols if f['kind'] in S.INT_KINDS + ('Char', 'Boolean')]
            if named and feats.conditions and leafable and draw(st.integers(0, 2)) == 0:
                ix['condition'] = draw(S.q_specs(cols))
            if not named and any(o['name'] is None and o['fields'] == flds for o in out):
                continue
            out.append(ix)
        return out
    if prop == 'constraints':
        out = []
        for c in m['constraints']:
            if draw(st.booleans()):
                out.append(copy.deepcopy(c))
        for _ in range(draw(st.integers(0, 2))):
            which = draw(st.sampled_from(['unique', 'check'] if feats.checks else ['unique']))
            if which == 'check':
                chk = S.permissive_check(draw, cols)
                if chk is not None:
                    out.append({'type': 'check', 'name': fresh('ck'), 'check': chk})
                    continue
            # new unique constraints only over columns whose data is distinct by
            # construction is the row generator's business (see rows())
            c = {'type': 'unique', 'name': fresh('uq'), 'fields': subset(1, 2),
                 'condition': None}
            out.append(c)
        return out
    raise ValueError(prop)


def _candidates(spec, opts, feats):
    """Enabled (kind, app, model) actions in the current spec."""
    cands = []
    for app, name, m in S.iter_models(spec):
        if opts.only_apps is not None and app not in opts.only_apps:
            continue
        refs = S.all_meta_refs(m)
        ut_refs = S.meta_field_refs(m)['unique_together']
        other_refs = refs - ut_refs | (S.meta_field_refs(m)['index_together'] |
                                       S.meta_field_refs(m)['indexes'] |
                                       S.meta_field_refs(m)['constraints'])
        if 'AddField' in opts.kinds and _free_field_name(m, _banned_names(spec, m, opts)):
            cands.append(('AddField', app, name, None))
        for f in m['fields']:
            if 'DeleteField' in opts.kinds and f['name'] not in other_refs:
                if not (opts.hinted and 'hinted_delete_meta_field' in opts.avoid and
                        f['uid'] in spec.get('_start_meta_refs', ())):
                    cands.append(('DeleteField', app, name, f['name']))
            if 'ChangeField' in opts.kinds and f['kind'] != 'ManyToMany':
                if not (opts.hinted and opts.avoid and
                        f['uid'] in spec.get('_changed_attrs', {})):
                    cands.append(('ChangeField', app, name, f['name']))
            if 'RenameField' in opts.kinds and f['name'] not in refs and _free_field_name(m):
                cands.append(('RenameField', app, name, f['name']))
        if opts.pk_rename and 'RenameField' in opts.kinds and S.pk_of(m) == 'id':
            cands.append(('RenameField', app, name, 'id'))
        if 'ChangeMeta' in opts.kinds and feats.meta:
            cands.append(('ChangeMeta', app, name, None))
        if 'RenameModel' in opts.kinds:
            m2m_involved = any(f['kind'] == 'ManyToMany' for f in m['fields']) or any(
                S.get_field(S.get_model(spec, a2, n2), f2)['kind'] == 'ManyToMany'
                for a2, n2, f2 in S.relations_to(spec, app, name))
            if not ('rename_model_m2m' in opts.avoid and m2m_involved):
                cands.append(('RenameModel', app, name, None))
        if 'DeleteModel' in opts.kinds:
            incoming = [r for r in S.relations_to(spec, app, name) if (r[0], r[1]) != (app, name)]
            if 'last_model' in opts.avoid and len(spec['apps'][app]['models']) <= 1:
                incoming = ['last model of the app']
            if not incoming and not ('multi_delete_hinted' in opts.avoid and
                                     spec.get('_deleted_models', 0) >= 1):
                cands.append(('DeleteModel', app, name, None))
    if 'RenameAppLabel' in opts.kinds:
        free = [l for l in S.APP_LABELS if l not in spec['apps']]
        for app in sorted(spec['apps']):
            if opts.only_apps is not None and app not in opts.only_apps:
                continue
            if free and spec['apps'][app]['models']:
                cands.append(('RenameAppLabel', app, None, None))
    if 'DeleteApplication' in opts.kinds:
        for app in sorted(spec['apps']):
            if not spec['apps'][app]['models']:
                continue
            if opts.only_apps is not None and app not in opts.only_apps:
                continue
            ok = True
            for n in spec['apps'][app]['models']:
                for r in S.relations_to(spec, app, n):
                    if r[0] != app:
                        ok = False
            if ok and 'delete_app_related' in opts.avoid:
                for n, mm in spec['apps'][app]['models'].items():
                    for f in mm['fields']:
                        if f['target'] and tuple(f['target']) != (app, n):
                            ok = False
            if ok:
                cands.append(('DeleteApplication', app, None, None))
    return cands


@st.composite
def draw_mutation(draw, spec, cand, feats, opts, counter):
    kind, app, name, fname = cand
    m = S.get_model(spec, app, name) if name else None
    targets = [(a, n) for a, n, _m in S.iter_models(spec)]
    if kind == 'AddField':
        fn = draw(st.sampled_from(_free_field_name(m, _banned_names(spec, m, opts))))
        f = draw(S.field_specs(fn, feats, targets, allow_unique=True))
        f['uid'] = 'add%d' % counter
        init = None
        if f['kind'] == 'ManyToMany':
            pass
        elif f['unique'] or f['kind'] == 'OneToOne':
            # unique columns are added nullable without initial (NULLs never collide)
            f['null'] = True
        elif f['kind'] == 'ForeignKey':
            f['null'] = True
        else:
            if not f['null'] or draw(st.integers(0, 2)) == 0:
                init = draw(initial_for(f))
        # keep column names unique
        cols = {S.column_of(x) for x in m['fields']} | {S.pk_of(m)}
        if f['kind'] != 'ManyToMany' and S.column_of(f) in cols:
            f['db_column'] = 'k_' + fn
        if f['kind'] == 'ManyToMany' and S.m2m_table_of(app, m, f) in S.all_tables(spec):
            f['db_table'] = 'm2m_%s_%s_%d' % (name.lower(), fn, counter)
        return {'kind': 'AddField', 'app': app, 'model': name, 'field': f, 'initial': init}
    if kind == 'DeleteField':
        return {'kind': 'DeleteField', 'app': app, 'model': name, 'name': fname}
    if kind == 'RenameField' and fname == S.pk_of(m):
        new = draw(st.sampled_from([n for n in ('key', 'code', 'pkid')
                                    if S.get_field(m, n) is None]))
        return {'kind': 'RenameField', 'app': app, 'model': name, 'old': fname, 'new': new,
                'db_column': None, 'db_table': None}
    if kind == 'RenameField':
        f = S.get_field(m, fname)
        new = draw(st.sampled_from(_free_field_name(m)))
        mut = {'kind': 'RenameField', 'app': app, 'model': name, 'old': fname, 'new': new,
               'db_column': None, 'db_table': None}
        if f['kind'] == 'ManyToMany':
            choice = draw(st.integers(0, 2))
            if choice == 0:
                mut['db_table'] = S.m2m_table_of(app, m, f)   # keep the old table
            elif choice == 1:
                mut['db_table'] = 'm2m_r%d' % counter
        else:
            choice = draw(st.integers(0, 2))
            if choice == 0:
                mut['db_column'] = S.column_of(f)             # keep the old column
            elif choice == 1:
                mut['db_column'] = 'rc%d_%s' % (counter, new)
        return mut
    if kind == 'ChangeField':
        f = S.get_field(m, fname)
        options = ['null', 'db_index', 'db_column']
        if f['kind'] == 'Char':
            options.append('max_length')
        if f['kind'] == 'Decimal':
            options.append('decimal')
        if opts.unique_changes and f['kind'] in ('Char', 'Integer', 'BigInteger'):
            options.append('unique')
        if opts.hinted and opts.retarget and f['kind'] in ('ForeignKey', 'OneToOne') and \
                len(targets) > 1:
            options.append('retarget')
        if f['kind'] == 'OneToOne':
            options = ['db_column'] + (['retarget'] if 'retarget' in options else [])
        single_unique = f['unique'] or any(
            c['type'] == 'unique' and c['fields'] == [fname] for c in m['constraints']) or \
            any(list(t) == [fname] for t in m['unique_together'])
        if f['null'] and single_unique and 'null' in options:
            options.remove('null')          # filling NULLs with one initial would collide
        if f['uid'] in spec.get('_filled', ()) and 'unique' in options:
            options.remove('unique')        # rows filled with one initial are not distinct
        if not options:
            options = ['db_index']
        if 'index_cover' in opts.avoid and fname in S.all_meta_refs(m) and 'db_index' in options:
            options.remove('db_index')
        if 'dbcol_dbindex' in opts.avoid:
            done = spec.get('_changed_attrs', {}).get(f['uid'], [])
            if 'db_column' in done and 'db_index' in options:
                options.remove('db_index')
            if 'db_index' in done and 'db_column' in options:
                options.remove('db_column')
            if not options:
                options = ['null']
        if opts.type_changes and f['kind'] in S.COLUMN_KINDS and fname not in S.all_meta_refs(m):
            options.append('type')
        n = draw(st.integers(1, 2))
        chosen = draw(st.lists(st.sampled_from(options), min_size=1, max_size=n, unique=True))
        if 'dbcol_dbindex' in opts.avoid and 'db_column' in chosen and 'db_index' in chosen:
            chosen.remove('db_index')
        if 'dbindex_with_rebuild' in opts.avoid and 'db_index' in chosen and len(chosen) > 1:
            chosen.remove('db_index')
        if 'null' in chosen and 'unique' in chosen:
            chosen.remove('unique')         # filling NULLs with one initial would collide
        mut = {'kind': 'ChangeField', 'app': app, 'model': name, 'name': fname,
               'attrs': {}, 'field_kind': None, 'initial': None}
        if 'type' in chosen:
            fam = {'Char': ['Text'], 'Text': ['Char'],
                   'Integer': ['BigInteger', 'PositiveInteger'],
                   'BigInteger': ['Integer'], 'PositiveInteger': ['Integer', 'BigInteger'],
                   'Boolean': ['Integer'], 'Decimal': ['Char'], 'DateTime': ['Char']}[f['kind']]
            nk = draw(st.sampled_from(fam))
            if not feats.positive and nk == 'PositiveInteger':
                nk = 'BigInteger'
            mut['field_kind'] = nk
            # a type change carries the complete attribute set
            attrs = {}
            for a in ('null', 'db_index', 'unique', 'db_column'):
                if f[a]:
                    attrs[a] = f[a]
            if nk == 'Char':
                attrs['max_length'] = 50
            mut['attrs'] = attrs
            return mut
        for c in chosen:
            if c == 'retarget':
                others = [t for t in targets if list(t) != list(f['target'])]
                mut['attrs']['target'] = list(draw(st.sampled_from(others)))
            elif c == 'null':
                mut['attrs']['null'] = not f['null']
                if f['null']:
                    if f['kind'] in ('ForeignKey', 'OneToOne'):
                        mut['initial'] = 1
                    else:
                        mut['initial'] = draw(initial_for(f))
            elif c == 'db_index':
                mut['attrs']['db_index'] = not f['db_index']
            elif c == 'db_column':
                cur = S.column_of(f)
                new = 'cc%d_%s' % (counter, fname)
                if f.get('db_column') and draw(st.booleans()):
                    # back to the default column name (what the hint gives when a model
                    # stops declaring db_column)
                    mut['attrs']['db_column'] = None
                else:
                    mut['attrs']['db_column'] = new if cur != new else 'cd_' + fname
            elif c == 'max_length':
                mut['attrs']['max_length'] = draw(st.sampled_from(
                    [x for x in (5, 20, 50, 100) if x != f['max_length']]))
            elif c == 'decimal':
                md = draw(st.sampled_from([6, 10, 12]))
                dp = draw(st.sampled_from([0, 2, 3]))
                if draw(st.booleans()):
                    mut['attrs']['max_digits'] = md
                    if dp != f['decimal_places'] and draw(st.booleans()):
                        mut['attrs']['decimal_places'] = dp
                else:
                    mut['attrs']['decimal_places'] = min(dp, f['max_digits'])
            elif c == 'unique':
                mut['attrs']['unique'] = not f['unique']
        return mut
    if kind == 'ChangeMeta':
        prop = draw(st.sampled_from(['unique_together', 'index_together', 'indexes',
                                     'constraints']))
        val = draw(draw_meta_value(spec, m, prop, feats, 'm%d' % counter))
        return {'kind': 'ChangeMeta', 'app': app, 'model': name, 'prop': prop, 'value': val}
    if kind == 'RenameModel':
        used = set(spec['apps'][app]['models'])
        free = [n for n in S.MODEL_NAMES + EXTRA_MODEL_NAMES if n not in used]
        new = draw(st.sampled_from(free))
        old_table = S.table_of(app, m)
        choice = draw(st.integers(0, 2))
        tables = S.all_tables(spec)
        if choice == 0 or 'rename_model_new_table' in opts.avoid:
            table = old_table
        elif choice == 1:
            table = S.default_table(app, new)
        else:
            table = 'rt%d_%s' % (counter, new.lower())
        if table != old_table and table in tables:
            table = old_table
        return {'kind': 'RenameModel', 'app': app, 'old': name, 'new': new, 'db_table': table}
    if kind == 'DeleteModel':
        return {'kind': 'DeleteModel', 'app': app, 'model': name}
    if kind == 'DeleteApplication':
        return {'kind': 'DeleteApplication', 'app': app}
    if kind == 'RenameAppLabel':
        free = [l for l in S.APP_LABELS if l not in spec['apps']]
        new = draw(st.sampled_from(free))
        return {'kind': 'RenameAppLabel', 'app': app, 'old': app, 'new': new, 'legacy': app}
    raise ValueError(kind)


@st.composite
def walks(draw, spec, feats=None, opts=None):
    """A list of mutations valid (by the reference model) from `spec`, and the
    resulting spec.  Returns (sequence, final_spec)."""
    feats = feats or S.Features()
    opts = opts or WalkOpts()
    n = draw(st.integers(opts.min_len, opts.max_len))
    seq = []
    cur = copy.deepcopy(spec)
    refs = []
    for _a, _n, _m in S.iter_models(cur):
        mr = S.meta_field_refs(_m)
        names = mr['index_together'] | mr['indexes'] | mr['constraints']
        refs += [f['uid'] for f in _m['fields'] if f['name'] in names]
    cur['_start_meta_refs'] = refs
    for i in range(n):
        cands = _candidates(cur, opts, feats)
        if not cands:
            break
        # weight: kinds first, then instance, so rare kinds are not starved
        kinds = sorted({c[0] for c in cands})
        k = draw(st.sampled_from(kinds))
        cand = draw(st.sampled_from([c for c in cands if c[0] == k]))
        mut = draw(draw_mutation(cur, cand, feats, opts, i))
        try:
            nxt = R.apply(cur, mut, strict=True)
        except R.RefInvalid:
            # construction failed to produce a valid step: skip it (counted by caller)
            continue
        if 'index_cover' in opts.avoid and any(
                S.has_index_overlap(mm) for _a, _n, mm in S.iter_models(nxt)):
            continue
        nxt['_start_meta_refs'] = cur.get('_start_meta_refs', [])
        nxt['_deleted_models'] = cur.get('_deleted_models', 0) + (mut['kind'] == 'DeleteModel')
        filled = list(cur.get('_filled', []))
        if mut['kind'] == 'AddField' and mut.get('initial') is not None:
            filled.append(mut['field']['uid'])
        if mut['kind'] == 'ChangeField' and mut.get('initial') is not None:
            fm0 = S.get_field(S.get_model(cur, mut['app'], mut['model']), mut['name'])
            filled.append(fm0['uid'])
        nxt['_filled'] = filled
        dn = {k: list(v) for k, v in cur.get('_deleted_names', {}).items()}
        if mut['kind'] == 'DeleteField':
            dm = S.get_model(cur, mut['app'], mut['model'])
            dn.setdefault(dm['uid'], []).append(mut['name'])
        nxt['_deleted_names'] = dn
        om = {k: list(v) for k, v in cur.get('_old_m2m_names', {}).items()}
        if mut['kind'] == 'RenameField':
            rm = S.get_model(cur, mut['app'], mut['model'])
            rf = S.get_field(rm, mut['old'])
            if rf is not None and rf['kind'] == 'ManyToMany':
                om.setdefault(rm['uid'], []).append(mut['old'])
        nxt['_old_m2m_names'] = om
        ca = {k: list(v) for k, v in cur.get('_changed_attrs', {}).items()}
        if mut['kind'] == 'ChangeField' and opts.hinted:
            fm = S.get_field(S.get_model(cur, mut['app'], mut['model']), mut['name'])
            ca.setdefault(fm['uid'], []).extend(mut['attrs'])
        nxt['_changed_attrs'] = ca
        seq.append(mut)
        cur = nxt
        if opts.barriers and draw(st.integers(0, 5)) == 0:
            seq.append({'kind': 'SQLMutation', 'app': mut['app'], 'tag': 'barrier%d' % i})
    for key in ('_deleted_models', '_changed_attrs', '_filled', '_deleted_names', '_old_m2m_names',
                '_start_meta_refs'):
        cur.pop(key, None)
    return seq, cur


# -- target edits for the hinted generator -----------------------------------

@st.composite
def edited_targets(draw, spec, feats=None, max_edits=4, avoid=(), retarget=False):
    """A target spec derived from `spec` by supported edits (no renames: hints
    cannot express them; no added models: the evolver creates those)."""
    opts = WalkOpts(kinds=['AddField', 'DeleteField', 'ChangeField', 'ChangeMeta',
                           'DeleteModel'], max_len=max_edits, avoid=set(avoid), hinted=True,
                    retarget=retarget)
    seq, target = draw(walks(spec, feats, opts))
    return seq, target
