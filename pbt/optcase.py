"""Shared core of C03/C18: run one mutation sequence four ways and compare.

  S   one AppMutator per mutation (state rescanned between): the reference
  B   one bare AppMutator for the whole list (per consecutive same-app group)
  B2  the *same, already processed* mutation objects through a second bare
      AppMutator on a fresh identical database (definitions must be reusable)
  E   the real Evolver task pipeline: EvolveAppTask(evolutions=[...]),
      prepare_tasks (optimiser pass 1) then _build_batches (pass 2), execute

Each execution starts from identical start databases with identical rows and
(except B2, on purpose) fresh mutation objects.
"""
import copy
import json
import traceback

from . import specs as S
from . import mutgen
from . import refmodel as R


def fingerprint(mutation):
    """str(mutation) (the hinted-evolution text the property names); falls back
    to the attribute dictionary when rendering itself fails (C13's subject)."""
    try:
        return str(mutation)
    except Exception:
        d = {}
        for k, v in sorted(vars(mutation).items()):
            d[k] = repr(v)
        return '%s%r' % (type(mutation).__name__, d)


def _exc_atom(prefix, e):
    tb = traceback.extract_tb(e.__traceback__)
    frames = [f for f in tb if 'django_evolution' in f.filename]
    where = None
    if frames:
        fr = frames[-1]
        where = '%s:%s' % (fr.filename.split('django_evolution/')[-1], fr.name)
    return [prefix + '_rejected', type(e).__name__, where, str(e)[:160]]


def _snapshot(alias, sig, apps=()):
    from . import dbnorm
    ex = dbnorm.django_exec(alias)
    dump = dbnorm.dump(ex)
    rows = {}
    for t in dump:
        cols, data = dbnorm.rows_of(ex, t)
        rows[t] = (cols, sorted(data, key=repr))
    only = {}
    if sig is not None:
        for app in apps:
            a = sig.get_app_sig(app)
            only[app] = a.serialize() if a is not None else None
    return {'dump': dump, 'rows': rows,
            'sig': json.dumps(only, sort_keys=True, default=str) if sig is not None else None,
            'sig_obj': sig}


def _prepare_db(spec, rows, links, alias='default'):
    from . import inproc, dbnorm
    from . import evolvecase as EC
    model_map, sig = inproc.start_case(spec, alias)
    EC.insert_rows(spec, rows, links, dbnorm.django_exec(alias))
    return model_map, sig


def compare_snapshots(prefix, ref, other):
    """Atoms for differences between two end states."""
    from . import dbnorm
    atoms = []
    for t, kind, detail, side in dbnorm.compare(other['dump'], ref['dump'],
                                                named=_all_index_names(ref['dump'])):
        atoms.append([prefix + '_schema', t, kind, dbnorm.jsonable(detail), side])
    for t in sorted(set(ref['rows']) & set(other['rows'])):
        if ref['rows'][t] != other['rows'][t]:
            rc, rd = ref['rows'][t]
            oc, od = other['rows'][t]
            if sorted(rc) == sorted(oc):
                # same columns: compare as dict rows (column order is not schema)
                a = sorted((tuple(sorted(zip(rc, r), key=repr)) for r in rd), key=repr)
                b = sorted((tuple(sorted(zip(oc, r), key=repr)) for r in od), key=repr)
                if a == b:
                    continue
            atoms.append([prefix + '_rows', t, repr(ref['rows'][t])[:200],
                          repr(other['rows'][t])[:200]])
    if ref['sig'] != other['sig']:
        atoms.append([prefix + '_signature', _sig_diff(ref['sig_obj'], other['sig_obj'])])
    return atoms


def _all_index_names(dump):
    names = set()
    for t in dump.values():
        for ix in t['indexes']:
            if not ix['auto']:
                names.add(ix['name'])
        for n, _e in t['checks']:
            if n:
                names.add(n)
    # auto-generated django names contain a hash; keep only names that look user-given
    return {n for n in names if n.endswith(('_ix', '_uq', '_ck')) or '_ix' in n[-5:] or
            '_uq' in n[-5:] or '_ck' in n[-5:]}


def _sig_diff(a, b):
    try:
        from django_evolution.diff import Diff
        return str(Diff(a, b))[:300] or 'serialisations differ (diff empty)'
    except Exception as e:
        return 'diff failed: %r' % (e,)


def run_S(case, trace=None):
    from . import inproc
    spec = mutgen.ensure_uids(copy.deepcopy(case['spec']))
    _mm, sig = _prepare_db(spec, case.get('rows') or {}, case.get('links') or {})
    inproc.run_sequence(sig, case['seq'], one_at_a_time=True, trace=trace)
    return _snapshot('default', sig, sorted(spec['apps']))


def run_B(case, trace=None, objects=None):
    """Whole list through bare AppMutators (one per consecutive same-app group).
    `objects`: pre-built mutation objects to (re)use, aligned with case['seq']."""
    from . import inproc, render
    spec = mutgen.ensure_uids(copy.deepcopy(case['spec']))
    _mm, sig = _prepare_db(spec, case.get('rows') or {}, case.get('links') or {})
    seq = case['seq']
    if objects is None:
        objects = [render.to_mutation(m) for m in seq]
    i = 0
    for app, grp in inproc.group_by_app(seq):
        objs = objects[i:i + len(grp)]
        i += len(grp)
        inproc.run_objects(sig, app, objs, 'default', trace)
    return _snapshot('default', sig, sorted(spec['apps'])), objects


def split_labels(seq, cuts):
    """Split a same-app run of mutations into evolution labels at `cuts`."""
    out = []
    start = 0
    for c in sorted(set(cuts)):
        if 0 < c < len(seq):
            out.append(seq[start:c])
            start = c
    out.append(seq[start:])
    return [x for x in out if x]


def run_E(case, cuts=(), trace=None, signals=None):
    """The real Evolver pipeline (DESIGN 2.1 step 4)."""
    from django.db import connections
    from django.apps import apps as global_apps
    from . import inproc, render, env, dbnorm
    from . import evolvecase as EC
    from django_evolution.compat.apps import get_app
    from django_evolution.evolve import Evolver, EvolveAppTask
    from django_evolution.models import Evolution, Version
    from django_evolution.signature import AppSignature

    from django_evolution.utils.migrations import clear_global_custom_migrations
    clear_global_custom_migrations()      # a fresh process would start clean
    spec = mutgen.ensure_uids(copy.deepcopy(case['spec']))
    seq = mutgen.ensure_seq_uids(case['seq'])
    final = R.apply_all(spec, seq, strict=False)
    model_map, sig = _prepare_db(spec, case.get('rows') or {}, case.get('links') or {})
    # bookkeeping tables + contenttypes, created the normal way
    conn = connections['default']
    from django.contrib.contenttypes.models import ContentType
    with conn.schema_editor() as editor:
        for cls in (ContentType, Version, Evolution):
            editor.create_model(cls)
    # target models in the global registry (what ProjectSignature.from_database reads)
    inproc.register_global(final)
    for label in ('contenttypes', 'django_evolution'):
        sig.add_app_sig(AppSignature.from_app(get_app(label), 'default'))
    for label in env.HARNESS_LABELS:
        if sig.get_app_sig(label) is None:
            sig.add_app_sig(AppSignature(app_id=label))
    Version(signature=sig).save()

    evolver = Evolver()
    per_app = {}
    order = []
    for app, grp in inproc.group_by_app(seq):
        if app not in per_app:
            per_app[app] = []
            order.append(app)
        per_app[app] += grp
    objs_by_app = {}
    for app in order:
        muts = per_app[app]
        parts = split_labels(muts, cuts)
        evolutions = []
        objs = []
        for i, part in enumerate(parts):
            mo = [render.to_mutation(m) for m in part]
            objs += mo
            evolutions.append({'label': 'e%d' % i, 'mutations': mo})
        objs_by_app[app] = objs
        evolver.queue_task(EvolveAppTask(evolver, get_app(app), evolutions=evolutions))
    before = {app: [fingerprint(m) for m in objs] for app, objs in objs_by_app.items()}
    error = None
    try:
        if trace is not None:
            with conn.execute_wrapper(trace):
                evolver.evolve()
        else:
            evolver.evolve()
    except Exception as e:
        error = e
    after = {app: [fingerprint(m) for m in objs] for app, objs in objs_by_app.items()}
    if error is not None:
        return {'error': error, 'defs_changed': before != after, 'defs': (before, after)}
    stored = Version.objects.current_version().signature
    # the signature comparison is restricted to the generated apps
    snap = _snapshot('default', stored, sorted(spec['apps']))
    for t in list(snap['dump']):
        if t in dbnorm.BOOKKEEPING:
            del snap['dump'][t]
            snap['rows'].pop(t, None)
    snap['defs_changed'] = before != after
    snap['defs'] = (before, after)
    return snap
