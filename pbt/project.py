"""Write generated projects to disk and run the tool against them in fresh
interpreter processes (DESIGN.md 2.2).

A project directory holds one *code version*:
    settings.py
    <app>/__init__.py  models.py  spec.json
    <app>/evolutions/__init__.py  (SEQUENCE, dependency attributes)
    <app>/evolutions/<label>.py + <label>.json   (MUTATIONS built from data)
    <app>/migrations/000N_*.py + .json           (C10 only)
Database files live outside the project directory; their paths come from the
environment (PBT_DB_DEFAULT, PBT_DB_OTHER) so that one code version can be run
against many database copies.
"""
import json
import os
import shutil
import subprocess
import sys
import tempfile

VERIF = os.path.dirname(os.path.dirname(os.path.abspath(__file__)))
REPO = os.environ.get('VERIF_REPO', '/repo')
PYTHON = sys.executable

SETTINGS = '''import os
DEBUG = False
SECRET_KEY = 'x'
USE_TZ = True
DEFAULT_AUTO_FIELD = 'django.db.models.AutoField'
LOGGING_CONFIG = None
DATABASES = {
    'default': {'ENGINE': 'django.db.backends.sqlite3', 'NAME': os.environ['PBT_DB_DEFAULT']},
%(other_db)s}
INSTALLED_APPS = %(apps)r
%(extra)s
'''

MODELS_PY = '''import json, os
from pbt.projmodels import define
define(__name__, %(app)r, os.path.join(os.path.dirname(os.path.abspath(__file__)), 'spec.json'))
'''

EVOLUTION_PY = '''import json, os
from pbt import render
_here = os.path.dirname(os.path.abspath(__file__))
with open(os.path.join(_here, %(json)r)) as _fh:
    MUTATIONS = [render.to_mutation(_m) for _m in json.load(_fh)]
'''

MIGRATION_PY = '''import json, os
from django.db import migrations
from pbt.projmodels import migration_operations
_here = os.path.dirname(os.path.abspath(__file__))
with open(os.path.join(_here, %(json)r)) as _fh:
    _doc = json.load(_fh)


class Migration(migrations.Migration):
    initial = _doc.get('initial', False)
    dependencies = [tuple(d) for d in _doc.get('dependencies', [])]
    operations = migration_operations(_doc['operations'])
'''

ROUTER_PY = '''import json, os
_here = os.path.dirname(os.path.abspath(__file__))
with open(os.path.join(_here, 'routes.json')) as _fh:
    ROUTES = json.load(_fh)


class SplitRouter(object):
    """Routes models by (app_label, model name) -> database alias."""

    def _db(self, app_label, model_name):
        if model_name is None:
            # app-level question (no model): answered only by 'app_level' policies
            return ROUTES.get('@' + app_label)
        return ROUTES.get('%s.%s' % (app_label, model_name.lower()))

    def db_for_read(self, model, **hints):
        return self._db(model._meta.app_label, model._meta.model_name)

    def db_for_write(self, model, **hints):
        return self._db(model._meta.app_label, model._meta.model_name)

    def allow_relation(self, obj1, obj2, **hints):
        return True

    def allow_migrate(self, db, app_label, model_name=None, **hints):
        want = self._db(app_label, model_name)
        if want is None:
            return None
        return db == want
'''


def write_project(root, version):
    """version: {
         'apps': [label...],                     (INSTALLED_APPS order)
         'spec': ProjectSpec,
         'evolutions': {app: [{'label':, 'mutations': [...]}...]},
         'deps': {app: {'AFTER_EVOLUTIONS': [...], ...,
                        'per_evolution': {label: {'AFTER_EVOLUTIONS': [...]}}}},
         'migrations': {app: [{'name':, 'initial':, 'dependencies':, 'operations':}...]},
         'routes': {'app.model': alias} | None,
         'two_dbs': bool,
       }"""
    os.makedirs(root, exist_ok=True)
    apps = version['apps']
    extra = ''
    other = ''
    if version.get('two_dbs'):
        other = ("    'other': {'ENGINE': 'django.db.backends.sqlite3', "
                 "'NAME': os.environ['PBT_DB_OTHER']},\n")
    if version.get('routes') is not None:
        extra = "DATABASE_ROUTERS = ['routers.SplitRouter']\n"
        with open(os.path.join(root, 'routers.py'), 'w') as fh:
            fh.write(ROUTER_PY)
        with open(os.path.join(root, 'routes.json'), 'w') as fh:
            json.dump(version['routes'], fh)
    # 'app_modules': {label: module} for apps whose AppConfig.label differs from
    # the name of their module (default: the module is named like the label)
    modules = version.get('app_modules') or {}
    installed = [a if modules.get(a, a) == a else '%s.apps.Cfg' % modules[a] for a in apps]
    with open(os.path.join(root, 'settings.py'), 'w') as fh:
        fh.write(SETTINGS % {
            'apps': ['django.contrib.contenttypes', 'django_evolution'] + installed,
            'other_db': other, 'extra': extra})
    spec = version['spec']
    for app in apps:
        adir = os.path.join(root, modules.get(app, app))
        os.makedirs(adir, exist_ok=True)
        open(os.path.join(adir, '__init__.py'), 'w').close()
        if modules.get(app, app) != app:
            with open(os.path.join(adir, 'apps.py'), 'w') as fh:
                fh.write('from django.apps import AppConfig\n\n\nclass Cfg(AppConfig):\n'
                         '    name = %r\n    label = %r\n' % (modules[app], app))
        with open(os.path.join(adir, 'spec.json'), 'w') as fh:
            json.dump({'apps': {app: spec['apps'].get(app, {'models': {}})}}, fh)
        with open(os.path.join(adir, 'models.py'), 'w') as fh:
            fh.write(MODELS_PY % {'app': app})
        evos = (version.get('evolutions') or {}).get(app)
        deps = (version.get('deps') or {}).get(app) or {}
        if evos is not None:
            edir = os.path.join(adir, 'evolutions')
            os.makedirs(edir, exist_ok=True)
            lines = ['SEQUENCE = %r' % [e['label'] for e in evos]]
            for key in ('AFTER_EVOLUTIONS', 'BEFORE_EVOLUTIONS', 'AFTER_MIGRATIONS',
                        'BEFORE_MIGRATIONS'):
                if deps.get(key):
                    lines.append('%s = %r' % (key, [tuple(x) if isinstance(x, list) else x
                                                    for x in deps[key]]))
            with open(os.path.join(edir, '__init__.py'), 'w') as fh:
                fh.write('\n'.join(lines) + '\n')
            for e in evos:
                if e.get('sql') is not None:
                    # SQL evolution: '<database>_<label>.sql' per database, or
                    # '<label>.sql' for the key ''
                    for dbname, stmts in e['sql'].items():
                        fn = ('%s_%s.sql' % (dbname, e['label'])) if dbname else \
                            ('%s.sql' % e['label'])
                        with open(os.path.join(edir, fn), 'w') as fh:
                            fh.write(''.join(x + '\n' for x in stmts))
                    continue
                with open(os.path.join(edir, e['label'] + '.json'), 'w') as fh:
                    json.dump(e['mutations'], fh)
                body = EVOLUTION_PY % {'json': e['label'] + '.json'}
                per = (deps.get('per_evolution') or {}).get(e['label']) or {}
                for key in ('AFTER_EVOLUTIONS', 'BEFORE_EVOLUTIONS', 'AFTER_MIGRATIONS',
                            'BEFORE_MIGRATIONS'):
                    if per.get(key):
                        body += '%s = %r\n' % (key, [tuple(x) if isinstance(x, list) else x
                                                     for x in per[key]])
                with open(os.path.join(edir, e['label'] + '.py'), 'w') as fh:
                    fh.write(body)
        migs = (version.get('migrations') or {}).get(app)
        if migs is not None:
            mdir = os.path.join(adir, 'migrations')
            os.makedirs(mdir, exist_ok=True)
            open(os.path.join(mdir, '__init__.py'), 'w').close()
            for m in migs:
                with open(os.path.join(mdir, m['name'] + '.json'), 'w') as fh:
                    json.dump(m, fh)
                with open(os.path.join(mdir, m['name'] + '.py'), 'w') as fh:
                    fh.write(MIGRATION_PY % {'json': m['name'] + '.json'})
    return root


class Scratch(object):
    """A scratch directory removed on exit."""

    def __init__(self, prefix='pbt_'):
        self.path = tempfile.mkdtemp(prefix=prefix)

    def __enter__(self):
        return self

    def __exit__(self, *a):
        shutil.rmtree(self.path, ignore_errors=True)

    def sub(self, *parts):
        p = os.path.join(self.path, *parts)
        os.makedirs(os.path.dirname(p), exist_ok=True)
        return p


def run_driver(project_dir, db_default, job, db_other=None, hashseed='0', timeout=300):
    """Run one job in a fresh interpreter.  Returns the parsed result dict (or
    {'driver_error': ...})."""
    env = dict(os.environ)
    env['PYTHONHASHSEED'] = str(hashseed)
    env['PBT_DB_DEFAULT'] = db_default
    env['PBT_DB_OTHER'] = db_other or (db_default + '.other')
    env['PYTHONPATH'] = os.pathsep.join([project_dir, VERIF, REPO])
    env['DJANGO_SETTINGS_MODULE'] = 'settings'
    env.pop('VERIF_TIER', None)
    p = subprocess.run([PYTHON, '-m', 'pbt.driver'], input=json.dumps(job), env=env,
                       cwd=project_dir, capture_output=True, text=True, timeout=timeout)
    out = p.stdout
    marker = '\n@@PBT-RESULT@@\n'
    if marker not in out:
        return {'driver_error': 'no result (rc=%s)' % p.returncode,
                'stdout': out[-2000:], 'stderr': p.stderr[-3000:]}
    try:
        return json.loads(out.split(marker, 1)[1])
    except Exception as e:
        return {'driver_error': 'bad json: %r' % e, 'stdout': out[-2000:],
                'stderr': p.stderr[-3000:]}
