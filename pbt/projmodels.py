"""Helpers imported by generated project files (models.py, migrations)."""
import json
import sys


def define(module_name, app_label, spec_path):
    """Define the models of `app_label` (from spec.json) in module
    `module_name` ('<app>.models'), registering them in the global registry the
    normal way (ModelBase.__new__)."""
    from django.apps import apps
    from . import render
    with open(spec_path) as fh:
        spec = json.load(fh)
    _reg, model_map = render.build_models(spec, registry=apps, module=module_name)
    mod = sys.modules[module_name]
    for (_app, name), cls in model_map.items():
        setattr(mod, name, cls)
    return model_map


def migration_operations(ops):
    """Django migration operations from data:
      {'op': 'CreateModel', 'spec': <ModelSpec>, 'app': label}
      {'op': 'AddField', 'model': Name, 'field': <FieldSpec>}
      {'op': 'RemoveField', 'model': Name, 'name': field}
      {'op': 'AlterField', 'model': Name, 'field': <FieldSpec>}
      {'op': 'RunSQL', 'sql': text}
    """
    from django.db import migrations, models
    from . import render
    out = []
    for op in ops:
        k = op['op']
        if k == 'CreateModel':
            m = op['spec']
            fields = [('id', models.AutoField(auto_created=True, primary_key=True,
                                              serialize=False, verbose_name='ID'))]
            for f in m['fields']:
                fields.append((f['name'], render.make_field(f)))
            options = {}
            if m.get('db_table'):
                options['db_table'] = m['db_table']
            if m.get('unique_together'):
                options['unique_together'] = {tuple(t) for t in m['unique_together']}
            out.append(migrations.CreateModel(name=m['name'], fields=fields, options=options))
        elif k == 'AddField':
            out.append(migrations.AddField(model_name=op['model'].lower(),
                                           name=op['field']['name'],
                                           field=render.make_field(op['field'])))
        elif k == 'RemoveField':
            out.append(migrations.RemoveField(model_name=op['model'].lower(), name=op['name']))
        elif k == 'AlterField':
            out.append(migrations.AlterField(model_name=op['model'].lower(),
                                             name=op['field']['name'],
                                             field=render.make_field(op['field'])))
        elif k == 'RunSQL':
            out.append(migrations.RunSQL(op['sql'], migrations.RunSQL.noop))
        else:
            raise ValueError(k)
    return out
