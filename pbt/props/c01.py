"""C01 - evolved database schema equals the schema of freshly created models."""
import json

from .. import evolvecase as EC
from .. import shrink as SH
from .. import specs as S

ID = 'C01'
LEVEL = 'exploration'
RULE = ('Hypothesis-generated (start model set, mutation sequence[, rows]) cases: model sets of '
        '1-3 models over 1-2 apps from the C01 field/Meta space; sequences are reference-model '
        'walks of 1-6 mutations (AddField, ChangeField, DeleteField, RenameField, ChangeMeta, '
        'RenameModel, DeleteModel, DeleteApplication) or the hinted evolution for an edited '
        'target model set; executed through scanned DatabaseState + AppMutator + SQLExecutor. '
        'A case is non-trivial when the run executed >=1 schema/data-changing statement and the '
        'normalised start schema differs from the normalised fresh target schema; distinct = '
        'distinct SHA-1 of the canonical JSON of (spec, sequence).')
ASSUMPTIONS = [
    'SQLite 3.40 / Django 4.2 only (the property names the SQLite backend)',
    'reference semantics of each mutation written from docs/mutations.rst (pbt/refmodel.py)',
    'schema comparison ignores names of auto-named indexes/constraints, column order, '
    'AUTOINCREMENT, DEFAULT and DEFERRABLE wording (not listed in the statement)',
    'identifiers are short, so name-truncation paths are not reached',
]
MIN_EVALUATIONS = {'quick': 200, 'thorough': 5000}


def setup_worker():
    from .. import env
    env.setup()


AVOID_ALL = {'rename_model_m2m', 'multi_delete_hinted', 'index_cover', 'dbcol_dbindex',
             'delete_app_related', 'readd_name', 'dbindex_with_rebuild',
             'hinted_delete_meta_field'}


def features(stratum):
    if stratum == 'plain':
        # excludes by construction the triggers of every confirmed finding
        return S.Features(meta=False, positive=False)
    return S.Features()


def walk_opts(stratum):
    from .. import mutgen
    if stratum == 'known':
        return mutgen.WalkOpts()
    return mutgen.WalkOpts(avoid=set(AVOID_ALL))


def strategy(stratum):
    return EC.cases(features(stratum), opts=walk_opts(stratum), max_rows=2)


STRATA = ['main', 'plain', 'known', 'main', 'plain', 'main', 'plain', 'known',
          'main', 'plain', 'main', 'plain', 'known', 'main', 'plain', 'known']


def jobs(tier, scale=1.0):
    per = int((150 if tier == 'quick' else 6000) * scale)
    return [{'kind': 'hyp', 'stratum': STRATA[i], 'shard': i, 'examples': per}
            for i in range(16)]


def run_job(job, seed, rec, tier):
    from .. import run as RUN
    setup_worker()
    if job['kind'] == 'replay':
        with open(job['file']) as fh:
            doc = json.load(fh)
        case = doc.get('case', doc)
        rec.record(case, check(case))
        return
    RUN.hyp_job(strategy(job['stratum']), check, job['examples'], seed, rec,
                max_seconds=(100 if tier == 'quick' else 3000))


def check(case):
    """S run (one AppMutator per mutation; judged completely) and B run (the
    whole sequence through one optimised AppMutator per app, as the evolver
    does).  Atoms that only the B run shows are optimiser-induced: they are
    C03's subject (S and B must agree), counted here as delegated, and are
    reported by the C03 check."""
    res = EC.run_case(case, want_rows=False, batch=False)
    out = {'labels': EC.case_labels(case, res), 'atoms': [], 'nontrivial': False}
    if res['rejected']:
        out['rejected'] = res['rejected'].split(':')[0]
        return out
    out['atoms'] = [a for a in res['atoms']]
    if len(case['seq']) > 1 or case['mode'] == 'hinted':
        resb = EC.run_case(case, want_rows=False, batch=True)
        s_keys = {json.dumps(a, sort_keys=True, default=str) for a in res['atoms']}
        only_b = [a for a in resb['atoms']
                  if json.dumps(a, sort_keys=True, default=str) not in s_keys]
        if only_b and not res['atoms']:
            out['labels'].append('batch_only_divergence(delegated_to_C03)')
            out['counters'] = {'delegated_to_C03': 1}
        out['res_batch'] = resb
    if res.get('start_dump') is not None:
        changed = EC_dump_differs(res['start_dump'], res['fresh_dump'])
        out['nontrivial'] = bool(res['n_change'] and changed)
    out['nontrivial_keys'] = [SH_key(case)]
    out['sample'] = {'mode': case['mode'], 'spec': case['spec'], 'seq': case['seq']}
    out['res'] = res
    return out


def SH_key(case):
    from ..run import sha
    return sha({'spec': case['spec'], 'seq': case['seq'], 'mode': case['mode']})


def EC_dump_differs(a, b):
    from .. import dbnorm
    return bool(dbnorm.compare(a, b))


def atom_bucket(atom):
    if atom[0] == 'schema':
        return 'schema:%s:%s' % (atom[2], atom[4])
    if atom[0] == 'exception':
        return 'exception:%s:%s:%s' % (atom[1], atom[2], atom[3])
    return str(atom[0])


def candidates(case):
    for c in SH.spec_seq_candidates(case):
        yield c
