"""C02 - evolutions preserve existing row data."""
import json

from .. import evolvecase as EC
from .. import shrink as SH
from .. import specs as S
from . import c01

ID = 'C02'
LEVEL = 'exploration'
RULE = ('C01 cases extended with 0-6 generated rows per table (NULLs, empty strings, quotes, '
        'percent signs, backslashes, unicode, boundary integers, decimals, datetimes, FK links, '
        'M2M link rows; distinct values by construction wherever the sequence ever requires '
        'uniqueness). The reference model (pbt/refmodel.py + evolvecase.evolve_rows) predicts '
        'every surviving cell, joined on primary key through the old->new table/column mapping. '
        'Non-trivial: >=1 row lived in a table that the run rebuilt, renamed or altered and the '
        'run executed >=1 changing statement; distinct = SHA-1 of (spec, sequence, rows).')
ASSUMPTIONS = [
    'SQLite only; values are compared in SQLite storage form (Decimal/DateTime/Boolean compared '
    'by value, see evolvecase.same_value)',
    'expected value after a type change is what SQLite itself stores for that value in a column '
    'of the new declared type (SQLite is trusted, the rebuild SQL is not)',
    'rows are generated so that no legal evolution must fail for data reasons (unique over '
    'duplicates etc. are user errors, not violations)',
]
MIN_EVALUATIONS = {'quick': 200, 'thorough': 5000}


def setup_worker():
    c01.setup_worker()


def strategy(stratum):
    return EC.cases(c01.features(stratum), opts=c01.walk_opts(stratum), max_rows=6)


STRATA = ['main', 'plain', 'main', 'plain', 'main', 'plain', 'known', 'main',
          'plain', 'main', 'plain', 'main', 'plain', 'known', 'main', 'plain']


def jobs(tier, scale=1.0):
    per = int((120 if tier == 'quick' else 5000) * scale)
    return [{'kind': 'hyp', 'stratum': STRATA[i], 'shard': i, 'examples': per}
            for i in range(16)]


def run_job(job, seed, rec, tier):
    from .. import run as RUN
    setup_worker()
    if job['kind'] == 'replay':
        with open(job['file']) as fh:
            doc = json.load(fh)
        case = doc.get('case', doc)
        rec.record(case, check(case))
        return
    RUN.hyp_job(strategy(job['stratum']), check, job['examples'], seed, rec,
                max_seconds=(100 if tier == 'quick' else 3000))


def check(case):
    res = EC.run_case(case, want_rows=True, batch=False)
    out = {'labels': EC.case_labels(case, res), 'atoms': [], 'nontrivial': False}
    if res['rejected']:
        out['rejected'] = res['rejected'].split(':')[0]
        return out
    out['res'] = res
    if any(a[0] in ('exception', 'hint_rejected') for a in res['atoms']):
        # the run itself failed: C01's subject ("executing the SQL succeeds")
        out['labels'].append('run_failed(C01)')
        return out
    out['atoms'] = list(res.get('row_atoms') or [])
    has_rows = any(case.get('rows', {}).values())
    out['nontrivial'] = bool(has_rows and res['n_change'])
    if has_rows and res.get('rebuilds'):
        out['labels'].append('rows_in_run_with_rebuild')
    for mut in case['seq']:
        if mut['kind'] == 'ChangeField' and mut['attrs'].get('null') is False:
            out['labels'].append('null_to_nonnull')
        if mut['kind'] == 'AddField' and mut.get('initial') is not None and has_rows:
            out['labels'].append('add_with_initial_on_rows')
        if mut['kind'] == 'RenameField' and has_rows:
            out['labels'].append('rename_field_with_rows')
        if mut['kind'] == 'RenameModel' and has_rows:
            out['labels'].append('rename_model_with_rows')
    if any(case.get('links', {}).values()):
        out['labels'].append('m2m_links')
    if len(case['seq']) > 1 or case['mode'] == 'hinted':
        resb = EC.run_case(case, want_rows=True, batch=True)
        if not any(a[0] in ('exception', 'hint_rejected') for a in resb['atoms']):
            s_keys = {json.dumps(a, sort_keys=True, default=str) for a in out['atoms']}
            only_b = [a for a in (resb.get('row_atoms') or [])
                      if json.dumps(a, sort_keys=True, default=str) not in s_keys]
            if only_b and not out['atoms']:
                out['labels'].append('batch_only_divergence(delegated_to_C03)')
                out['counters'] = {'delegated_to_C03': 1}
    from ..run import sha
    out['nontrivial_keys'] = [sha({'spec': case['spec'], 'seq': case['seq'],
                                   'rows': case.get('rows'), 'links': case.get('links')})]
    out['sample'] = {'mode': case['mode'], 'spec': case['spec'], 'seq': case['seq'],
                     'rows': case.get('rows'), 'links': case.get('links')}
    return out


def atom_bucket(atom):
    if atom[0] == 'rows':
        return 'rows:%s' % atom[1]
    return str(atom[0])


def candidates(case):
    for c in SH.spec_seq_candidates(case):
        yield c
