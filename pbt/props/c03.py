"""C03 - optimising a mutation sequence never changes its outcome (and C18's
rebuild counts, which ride on the same executions)."""
import copy
import itertools
import json

from hypothesis import strategies as st

from .. import evolvecase as EC
from .. import optcase as OC
from .. import shrink as SH
from .. import specs as S
from .. import mutgen
from .. import refmodel as R

ID = 'C03'
LEVEL = 'exploration'
RULE = ('(i) small scope: every sequence up to length 3 (quick: a deterministic 1/8 sample; '
        'thorough: all) over a fixed alphabet of ~34 concrete mutations on models Alpha/Beta '
        '(AddField, ChangeField, DeleteField, RenameField to free and reused names, ChangeMeta, '
        'RenameModel, DeleteModel, SQLMutation barrier); (ii) random: Hypothesis reference-model '
        'walks up to length 12 over generated model sets with rows. Each sequence that is valid '
        'one mutation at a time (S run succeeds) is also run as one optimised batch through a '
        'bare AppMutator (B), a second time with the same already-processed mutation objects '
        '(B2) and through the real Evolver pipeline EvolveAppTask(evolutions=...) with the '
        'sequence split over 1-3 labels (E); final signature, normalised schema and rows must '
        'agree with S, str() of every definition must be unchanged, B2 must equal B. '
        'Non-trivial: the statements executed by B differ from those executed by S or a '
        'definition was rewritten (the optimiser did something); distinct = SHA-1 of the case.')
ASSUMPTIONS = [
    'a sequence whose one-at-a-time execution itself fails is C01\'s subject and is skipped here',
    'SQLite backend; small-scope alphabet is fixed (small-scope hypothesis), random part covers '
    'larger specs',
    'E restricted to sequences without RenameModel to a new table name and without '
    'DeleteApplication (the Evolver would treat the renamed model\'s table as a brand-new model)',
]
MIN_EVALUATIONS = {'quick': 300, 'thorough': 5000}
MAX_REJECT_RATE = 0.98      # the small scope enumerates invalid sequences too, by design
EXHAUSTIVE = {'quick': False, 'thorough': True}


def setup_worker():
    from .. import env
    env.setup()


# ---------------------------------------------------------------------------
# small scope
# ---------------------------------------------------------------------------

def small_spec():
    F, M = S.new_field, S.new_model
    spec = S.new_project()
    S.add_model(spec, 'pa', M('Alpha', [F('a', 'Char', max_length=20), F('b', 'Integer', null=True),
                                       F('c', 'Integer', db_index=True)]))
    S.add_model(spec, 'pa', M('Beta', [F('a', 'Integer', unique=True), F('b', 'Char', max_length=10, null=True)]))
    return mutgen.ensure_uids(spec)


def small_rows():
    return ({'pa.Alpha': [{'id': 1, 'pa.Alpha.a': 'x', 'pa.Alpha.b': None, 'pa.Alpha.c': 3},
                          {'id': 2, 'pa.Alpha.a': "it's", 'pa.Alpha.b': 7, 'pa.Alpha.c': 4}],
             'pa.Beta': [{'id': 1, 'pa.Beta.a': 5, 'pa.Beta.b': None}]}, {})


def alphabet():
    F = S.new_field
    A = []

    def add(model, name, kind, initial=None, **kw):
        f = F(name, kind, **kw)
        f['uid'] = 'add:%s.%s.%s' % (model, name, kind)
        A.append({'kind': 'AddField', 'app': 'pa', 'model': model, 'field': f, 'initial': initial})

    def chg(model, name, initial=None, **attrs):
        A.append({'kind': 'ChangeField', 'app': 'pa', 'model': model, 'name': name,
                  'attrs': attrs, 'field_kind': None, 'initial': initial})

    def dele(model, name):
        A.append({'kind': 'DeleteField', 'app': 'pa', 'model': model, 'name': name})

    def ren(model, old, new, db_column=None):
        A.append({'kind': 'RenameField', 'app': 'pa', 'model': model, 'old': old, 'new': new,
                  'db_column': db_column, 'db_table': None})

    def meta(model, prop, value):
        A.append({'kind': 'ChangeMeta', 'app': 'pa', 'model': model, 'prop': prop, 'value': value})

    for model in ('Alpha', 'Gamma'):
        add(model, 'd', 'Integer', null=True)
        add(model, 'd', 'Char', initial='x', max_length=20)
        chg(model, 'a', max_length=30)
        chg(model, 'b', initial=1, null=False)
        chg(model, 'c', db_index=False)
        chg(model, 'd', initial=5, null=False)
        dele(model, 'a')
        dele(model, 'd')
        ren(model, 'a', 'd')
        ren(model, 'd', 'e')
    add('Beta', 'fk', 'ForeignKey', target=['pa', 'Alpha'], null=True)
    dele('Alpha', 'b')
    dele('Beta', 'b')
    ren('Alpha', 'b', 'a')
    ren('Alpha', 'a', 'e', db_column='col_e')
    meta('Alpha', 'unique_together', [['b', 'c']])
    meta('Alpha', 'unique_together', [])
    meta('Alpha', 'indexes', [{'name': 'alpha_ix', 'fields': ['c'], 'condition': None}])
    meta('Alpha', 'indexes', [])
    A.append({'kind': 'RenameModel', 'app': 'pa', 'old': 'Alpha', 'new': 'Gamma',
              'db_table': 'pa_alpha'})
    A.append({'kind': 'RenameModel', 'app': 'pa', 'old': 'Gamma', 'new': 'Alpha',
              'db_table': 'pa_alpha'})
    A.append({'kind': 'RenameModel', 'app': 'pa', 'old': 'Beta', 'new': 'Aaa',
              'db_table': 'pa_beta'})
    A.append({'kind': 'DeleteModel', 'app': 'pa', 'model': 'Beta'})
    A.append({'kind': 'SQLMutation', 'app': 'pa', 'tag': 'barrier'})
    # appended last so that the indices stored in earlier replay files keep their meaning
    chg('Beta', 'a', unique=False)
    return A


def reuse_alphabet():
    """Reduced alphabet on one model that reuses the field names a/d (length-4
    sequences are enumerated over it)."""
    F = S.new_field
    A = []

    def add(name, kind, initial=None, **kw):
        f = F(name, kind, **kw)
        f['uid'] = 'radd:%s.%s' % (name, kind)
        A.append({'kind': 'AddField', 'app': 'pa', 'model': 'Alpha', 'field': f,
                  'initial': initial})

    def chg(name, initial=None, **attrs):
        A.append({'kind': 'ChangeField', 'app': 'pa', 'model': 'Alpha', 'name': name,
                  'attrs': attrs, 'field_kind': None, 'initial': initial})

    def ren(old, new):
        A.append({'kind': 'RenameField', 'app': 'pa', 'model': 'Alpha', 'old': old, 'new': new,
                  'db_column': None, 'db_table': None})
    chg('a', max_length=30)
    chg('a', null=True)
    chg('a', max_length=15, null=True)
    chg('d', max_length=40)
    ren('a', 'd')
    ren('d', 'a')
    add('a', 'Char', initial='n', max_length=10)
    add('d', 'Char', max_length=10, null=True)
    add('a', 'Integer', null=True)
    A.append({'kind': 'DeleteField', 'app': 'pa', 'model': 'Alpha', 'name': 'a'})
    A.append({'kind': 'DeleteField', 'app': 'pa', 'model': 'Alpha', 'name': 'd'})
    return A


def small_sequences(max_len=3):
    """('main', idxs) over the main alphabet up to max_len, then ('reuse', idxs)
    over the reduced name-reuse alphabet up to length 4."""
    n = len(alphabet())
    for length in range(1, max_len + 1):
        for idxs in itertools.product(range(n), repeat=length):
            yield idxs
    r = len(reuse_alphabet())
    for length in range(2, 5):
        for idxs in itertools.product(range(r), repeat=length):
            yield tuple(-1 - i for i in idxs)       # negative = reuse alphabet


def small_case(idxs, cuts=()):
    A = alphabet()
    if idxs and idxs[0] < 0:
        A2 = reuse_alphabet()
        rows, links = small_rows()
        return {'mode': 'small', 'spec': small_spec(),
                'seq': [copy.deepcopy(A2[-1 - i]) for i in idxs],
                'rows': rows, 'links': links, 'cuts': list(cuts), 'idxs': list(idxs)}
    rows, links = small_rows()
    return {'mode': 'small', 'spec': small_spec(), 'seq': [copy.deepcopy(A[i]) for i in idxs],
            'rows': rows, 'links': links, 'cuts': list(cuts), 'idxs': list(idxs)}


# ---------------------------------------------------------------------------
# random
# ---------------------------------------------------------------------------

@st.composite
def random_cases(draw, stratum):
    feats = S.Features(two_apps=False) if stratum != 'two_apps' else S.Features()
    opts = mutgen.WalkOpts(kinds=['AddField', 'DeleteField', 'ChangeField', 'RenameField',
                                  'ChangeMeta', 'RenameModel', 'DeleteModel'],
                           min_len=2, max_len=12, barriers=True,
                           avoid={'rename_model_m2m', 'index_cover', 'dbcol_dbindex',
                                  'dbindex_with_rebuild', 'readd_name'})
    if stratum == 'name_reuse':
        return draw(name_reuse_cases())
    case = draw(EC.cases(feats, opts=opts, mode='walk', max_rows=3))
    n = len(case['seq'])
    case['cuts'] = sorted(set(draw(st.lists(st.integers(1, max(1, n - 1)), max_size=2))))
    return case


@st.composite
def name_reuse_cases(draw):
    """By construction: a field F of one model gets [ChangeField] RenameField(F->G)
    AddField(new field named F) [ChangeField of the new F], with a few random
    field-level mutations in between - two generations of one field name inside one
    batch (no deletions: that is F-C03-13's trigger)."""
    feats = S.Features(two_apps=False, meta=False, max_models=2, max_fields=3, relations=False,
                       m2m=False, db_column=False)
    opts = mutgen.WalkOpts(kinds=['AddField', 'ChangeField', 'RenameField'], min_len=0,
                           max_len=1, barriers=False,
                           avoid={'index_cover', 'dbcol_dbindex', 'dbindex_with_rebuild'})
    spec = None
    for _ in range(5):
        spec = mutgen.ensure_uids(draw(S.project_specs(feats, apps=('pa',))))
        if any(m['fields'] for _a, _n, m in S.iter_models(spec)):
            break
    models = [(a, n) for a, n, m in S.iter_models(spec) if m['fields']]
    if not models:
        return {'mode': 'walk', 'spec': spec, 'seq': [], 'rows': {}, 'links': {}, 'cuts': []}
    app, name = draw(st.sampled_from(models))
    fname = draw(st.sampled_from([f['name'] for f in S.get_model(spec, app, name)['fields']]))
    seq, cur = [], copy.deepcopy(spec)
    counter = [0]

    def push(mut):
        nonlocal cur
        try:
            nxt = R.apply(cur, mut, strict=True)
        except (R.RefInvalid, KeyError, TypeError, AttributeError):
            return False
        seq.append(mut)
        cur = nxt
        return True

    def one(cand, force_name=None):
        if cand[3] is not None:
            mm = S.get_model(cur, cand[1], cand[2])
            ff = S.get_field(mm, cand[3]) if mm else None
            if ff is None or (cand[0] == 'ChangeField' and ff['kind'] == 'ManyToMany'):
                return False
        if cand[0] == 'AddField' and force_name is not None:
            mm = S.get_model(cur, cand[1], cand[2])
            if mm is None or S.get_field(mm, force_name) is not None:
                return False
        counter[0] += 1
        mut = draw(mutgen.draw_mutation(cur, cand, feats, opts, counter[0]))
        if mut is None:
            return False
        if force_name is not None and mut['kind'] == 'AddField':
            mut['field']['name'] = force_name
            mut['field']['db_column'] = None
        return push(mut)

    def filler():
        if draw(st.integers(0, 2)) == 0:
            cands = [c for c in mutgen._candidates(cur, opts, feats) if c[1:3] == (app, name)]
            if cands:
                one(draw(st.sampled_from(cands)))
    if draw(st.booleans()):
        one(('ChangeField', app, name, fname))
    filler()
    if not one(('RenameField', app, name, fname)):
        return {'mode': 'walk', 'spec': spec, 'seq': seq, 'rows': {}, 'links': {}, 'cuts': []}
    filler()
    one(('AddField', app, name, None), force_name=fname)
    filler()
    if draw(st.booleans()):
        one(('ChangeField', app, name, fname))
    rows, links = draw(EC.rows_for(spec, seq, 3))
    n = len(seq)
    cuts = sorted(set(draw(st.lists(st.integers(1, max(1, n - 1)), max_size=1))))
    return {'mode': 'walk', 'spec': spec, 'seq': seq, 'rows': rows, 'links': links, 'cuts': cuts}


def jobs(tier, scale=1.0):
    out = []
    total = sum(len(alphabet()) ** k for k in (1, 2, 3)) + \
        sum(len(reuse_alphabet()) ** k for k in (2, 3, 4))
    nsh = 12
    for i in range(nsh):
        out.append({'kind': 'small', 'shard': i, 'of': nsh,
                    'stride': 1 if tier == 'thorough' else max(1, int(8 / scale)), 'total': total})
    per = int((150 if tier == 'quick' else 6000) * scale)
    for i in range(4 if tier == 'quick' else 16):
        out.append({'kind': 'hyp', 'stratum': 'one_app' if i % 2 == 0 else 'two_apps',
                    'shard': i, 'examples': per})
    for i in range(2 if tier == 'quick' else 4):
        out.append({'kind': 'hyp', 'stratum': 'name_reuse', 'shard': 100 + i, 'examples': per})
    return out


def run_job(job, seed, rec, tier):
    from .. import run as RUN
    setup_worker()
    if job['kind'] == 'replay':
        with open(job['file']) as fh:
            doc = json.load(fh)
        case = doc.get('case', doc)
        rec.record(case, check(case))
        return
    if job['kind'] == 'small':
        # deterministic partition: sequence number k belongs to shard k % of; with a
        # stride, only every stride-th of those (offset by the seed) is run
        off = seed % job['stride']
        for k, idxs in enumerate(small_sequences()):
            if k % job['of'] != job['shard']:
                continue
            # every sequence of length <= 2 runs in every tier; longer ones are strided
            if len(idxs) > 2 and (k // job['of']) % job['stride'] != off:
                continue
            n = len(idxs)
            cuts = [] if n < 2 else [1 + (k % (n - 1))]
            case = small_case(idxs, cuts)
            rec.record({'mode': 'small', 'idxs': list(idxs), 'cuts': cuts}, check(case))
        return
    RUN.hyp_job(random_cases(job['stratum']), check, job['examples'], seed, rec,
                max_seconds=(100 if tier == 'quick' else 3000))


# ---------------------------------------------------------------------------
# check
# ---------------------------------------------------------------------------

def expand(case):
    if case.get('mode') == 'small' and 'spec' not in case:
        return small_case(case['idxs'], case.get('cuts') or ())
    return case


def change_statements(trace):
    from .. import inproc
    return [(s, repr(p)) for s, p in trace.statements if inproc.is_change(s)]


def table_uids(case):
    """table name (any time) -> model uid, via the reference trail."""
    spec = mutgen.ensure_uids(copy.deepcopy(case['spec']))
    names = {}
    cur = spec
    seqs = [None] + list(case['seq'])
    for mut in seqs:
        if mut is not None:
            try:
                cur = R.apply(cur, mut, strict=False)
            except Exception:
                break
        for a, n, m in S.iter_models(cur):
            names[S.table_of(a, m)] = m['uid']
    return names


def rebuilds_by_uid(trace, names):
    from .. import inproc
    out = {}
    for t, n in inproc.rebuild_counts(trace.statements).items():
        out[names.get(t, t)] = out.get(names.get(t, t), 0) + n
    return out


def has_q(obj):
    if isinstance(obj, dict):
        if obj.get('condition') or obj.get('check'):
            return True
        return any(has_q(v) for v in obj.values())
    if isinstance(obj, list):
        return any(has_q(v) for v in obj)
    return False


def e_applicable(case):
    # conditions / check constraints do not survive the stored-signature round trip
    # (C06's finding); the Evolver pipeline starts from the stored signature
    if has_q(case['spec']) or has_q(case['seq']):
        return False
    for m in case['seq']:
        if m['kind'] == 'DeleteApplication':
            return False
        if m['kind'] == 'RenameModel':
            return False
    return True


def check(case):
    from .. import inproc
    walk = case.get('mode') == 'walk'
    case = expand(case)
    mutgen.ensure_seq_uids(case['seq'])
    out = {'labels': [], 'atoms': [], 'nontrivial': False, 'c18_atoms': []}
    seq = case['seq']
    if walk:
        # walks are generated valid by the reference model; shrinking must not
        # leave that domain (e.g. a rename onto the name of a live model)
        try:
            R.apply_all(mutgen.ensure_uids(copy.deepcopy(case['spec'])), seq, strict=True)
        except (R.RefInvalid, KeyError, TypeError, AttributeError):
            out['rejected'] = 'ref_invalid'
            return out
    tS = inproc.Trace()
    try:
        snapS = OC.run_S(case, tS)
    except Exception as e:
        out['rejected'] = 's_failed'
        out['s_error'] = repr(e)[:200]
        return out
    kinds = [m['kind'] for m in seq]
    for k in sorted(set(kinds)):
        out['labels'].append('mut:' + k)
    out['labels'].append('len:%d' % min(len(seq), 12))
    if 'SQLMutation' in kinds:
        out['labels'].append('barrier')
    names = table_uids(case)
    rS = rebuilds_by_uid(tS, names)
    out['rebuilds'] = {'S': rS}

    tB = inproc.Trace()
    objs = None
    snapB = None
    try:
        from .. import render
        objs = [render.to_mutation(m) for m in seq]
        before = [OC.fingerprint(o) for o in objs]
        snapB, objs = OC.run_B(case, tB, objects=objs)
        after = [OC.fingerprint(o) for o in objs]
        out['atoms'] += OC.compare_snapshots('b', snapS, snapB)
        if before != after:
            changed = [b for b, a in zip(before, after) if a != b]
            out['atoms'].append(['b_definitions_changed', changed[0][:120]])
            out['labels'].append('definitions_rewritten')
    except Exception as e:
        out['atoms'].append(OC._exc_atom('b', e))
    if snapB is not None:
        rB = rebuilds_by_uid(tB, names)
        for uid, n in sorted(rB.items()):
            if n > rS.get(uid, 0):
                out['c18_atoms'].append(['b_more_rebuilds', uid, rS.get(uid, 0), n])
        out['rebuilds'] = {'S': rS, 'B': rB}
        # B2: same, already processed objects, fresh identical database
        try:
            tB2 = inproc.Trace()
            snapB2, _o = OC.run_B(case, tB2, objects=objs)
            for a in OC.compare_snapshots('b2', snapB, snapB2):
                out['atoms'].append(a)
            if change_statements(tB) != change_statements(tB2):
                out['atoms'].append(['b2_statements_differ'])
        except Exception as e:
            out['atoms'].append(OC._exc_atom('b2', e))
    optimised = change_statements(tB) != change_statements(tS)
    if optimised:
        out['labels'].append('optimiser_changed_statements')
    if e_applicable(case):
        tE = inproc.Trace()
        try:
            snapE = OC.run_E(case, case.get('cuts') or (), tE)
            if snapE['defs_changed']:
                out['atoms'].append(['e_definitions_changed'])
            if snapE.get('error') is not None:
                raise snapE['error']
            out['atoms'] += OC.compare_snapshots('e', snapS, snapE)
            rE = rebuilds_by_uid(tE, names)
            for uid, n in sorted(rE.items()):
                if n > rS.get(uid, 0):
                    out['c18_atoms'].append(['e_more_rebuilds', uid, rS.get(uid, 0), n])
            out['rebuilds'] = dict(out.get('rebuilds') or {}, E=rE)
            out['labels'].append('evolver_pipeline')
            if len(case.get('cuts') or ()) > 0:
                out['labels'].append('multi_label_split')
        except Exception as e:
            out['atoms'].append(OC._exc_atom('e', e))
    from .. import findings as F
    flags, _t = F.c03_flags(case, out)
    allflags = set()
    for fl in flags.values():
        allflags |= fl
    if allflags:
        for fl in sorted(allflags):
            out['labels'].append('flag:' + fl)
    else:
        out['labels'].append('in_clean_fragment')
        if optimised or 'definitions_rewritten' in out['labels']:
            out['labels'].append('in_clean_fragment_and_nontrivial')
    out['nontrivial'] = bool(optimised or 'definitions_rewritten' in out['labels'])
    if max(rS.values() or [0]) >= 2:
        out['labels'].append('S_rebuilt_a_table_twice')
    out['sample'] = {'seq': [EC_describe(m) for m in seq], 'cuts': case.get('cuts'),
                     'rebuilds': out.get('rebuilds')}
    return out


def EC_describe(m):
    from .. import render
    return render.describe(m)


def atom_bucket(atom):
    if atom[0].endswith('_rejected'):
        return '%s:%s:%s' % (atom[0], atom[1], atom[2])
    if atom[0].endswith('_schema'):
        return '%s:%s:%s' % (atom[0], atom[2], atom[4])
    return str(atom[0])


def candidates(case):
    case = expand(case)
    if case.get('mode') == 'small':
        idxs = case['idxs']
        for i in reversed(range(len(idxs))):
            c = {'mode': 'small', 'idxs': idxs[:i] + idxs[i + 1:], 'cuts': []}
            yield c
        if case.get('cuts'):
            yield {'mode': 'small', 'idxs': idxs, 'cuts': []}
        return
    if case.get('cuts'):
        c = copy.deepcopy(case)
        c['cuts'] = []
        yield c
    for c in SH.spec_seq_candidates(case):
        yield c
