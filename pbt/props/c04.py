"""C04 - all upgrade paths converge: fresh install, stepwise, direct."""
import copy
import json
import os
import shutil

from hypothesis import strategies as st

from .. import evolvecase as EC
from .. import history as H
from .. import project as P
from .. import specs as S
from .. import mutgen
from .. import refmodel as R
from .. import dbnorm

ID = 'C04'
LEVEL = 'exploration'
RULE = ('Generated linear histories V0..Vn (quick n<=2, thorough n<=4) of one or two apps: each '
        'step is an evolution of 1-4 mutations stored in the app\'s SEQUENCE, a new model, or a '
        'new app; real project directories, evolution modules discovered by import, fresh '
        'interpreter per run. Paths: fresh install of every Vi, direct Vi->Vn for every i<n '
        '(rows inserted at Vi), stepwise V0->V1->..->Vn, then a second run at Vn; entry point '
        'drawn from {Evolver API, evolve --execute --noinput, migrate --noinput}. Oracle: every '
        'path end has the normalised schema of fresh Vn, rows equal the reference model\'s, '
        'recorded (app,label) == each app\'s SEQUENCE without duplicates, stored signature == '
        'signature of the models with both diffs empty; second run: nothing required, no '
        'schema/data statement, state unchanged. Non-trivial: >=1 evolution step and some path '
        'executed >=1 changing statement; distinct = SHA-1 of the history.')
ASSUMPTIONS = [
    'histories are linear; contenttypes\' built-in evolutions/migrations run in every project '
    'and are only checked for being unchanged by later runs',
    'paths whose pending mutation list matches a structural flag of an open C03 finding are '
    'counted and not judged here (the C03 check reports them)',
    'main stratum: no Meta options / PositiveIntegerField (F-C01-1 is C01\'s finding)',
]
MIN_EVALUATIONS = {'quick': 20, 'thorough': 400}
SHRINK_CHECKS = 30


def setup_worker():
    pass


@st.composite
def cases(draw, tier, stratum):
    feats = S.Features(meta=False, positive=False) if stratum != 'meta' else S.Features()
    h = draw(H.histories(feats, max_steps=(2 if tier == 'quick' else 4) +
                         (1 if stratum == 'backfill' else 0),
                         backfills=(stratum == 'backfill')))
    vers = H.versions(h)
    rows_at = {}
    for i in range(len(vers) - 1):
        seq = H.pending_sequence(h, i)
        rows, links = draw(EC.rows_for(H.reference_start(h, vers, i), seq, 3))
        rows = {k: v for k, v in rows.items()
                if any(m['uid'] == k for _a, _n, m in S.iter_models(vers[i]['spec']))}
        links = {k: v for k, v in links.items()
                 if any(f['uid'] == k for _a, _n, m in S.iter_models(vers[i]['spec'])
                        for f in m['fields'])}
        rows_at[str(i)] = [rows, links]
    entry = draw(st.sampled_from(['api', 'evolve_cmd', 'migrate_cmd']))
    return {'history': h, 'rows_at': rows_at, 'entry': entry}


def jobs(tier, scale=1.0):
    per = max(1, int((8 if tier == 'quick' else 60) * scale))
    return [{'kind': 'hyp', 'stratum': ['main', 'backfill', 'main', 'meta', 'backfill', 'main', 'backfill', 'meta'][i % 8], 'shard': i,
             'examples': per} for i in range(16)]


def run_job(job, seed, rec, tier):
    from .. import run as RUN
    if job['kind'] == 'replay':
        with open(job['file']) as fh:
            doc = json.load(fh)
        case = doc.get('case', doc)
        rec.record(case, check(case))
        return
    RUN.hyp_job(cases(tier, job['stratum']), check, job['examples'], seed, rec,
                max_seconds=(150 if tier == 'quick' else 3000))


def upgrade_step(entry, fault_at=None):
    if entry == 'api':
        return {'op': 'evolve_api', 'fault_at': fault_at}
    if entry == 'evolve_cmd':
        return {'op': 'command', 'name': 'evolve', 'kwargs': {'execute': True, 'interactive': False},
                'fault_at': fault_at}
    return {'op': 'command', 'name': 'migrate', 'kwargs': {'interactive': False, 'verbosity': 1},
            'fault_at': fault_at}


def user_tables(dump, spec_tables=None):
    norm = dbnorm.from_jsonable(dump['norm'])
    return norm


def expected_labels(version):
    out = set()
    for app, evos in version['evolutions'].items():
        for e in evos:
            out.add((app, e['label']))
    return out


def judge_end(name, end, fresh_n, vn, atoms, named):
    """Schema / bookkeeping invariants of one path end."""
    if end.get('driver_error'):
        atoms.append(['driver_error', name, end['driver_error'][-300:]])
        return False
    d = end['dumps']['default']
    for t, kind, detail, side in dbnorm.compare(dbnorm.from_jsonable(d['norm']),
                                                dbnorm.from_jsonable(fresh_n['norm']), named):
        atoms.append(['path_schema', name, t, kind, dbnorm.jsonable(detail), side])
    recorded = [(r[0], r[1]) for r in (d['evolutions'] or [])]
    mine = [r for r in recorded if r[0] in vn['evolutions']]
    if len(mine) != len(set(mine)):
        atoms.append(['labels_duplicated', name, sorted(set(x for x in mine if mine.count(x) > 1))])
    if set(mine) != expected_labels(vn):
        atoms.append(['labels_differ', name, sorted(expected_labels(vn) - set(mine)),
                      sorted(set(mine) - expected_labels(vn))])
    sc = d.get('sig_check') or {}
    if sc.get('error'):
        atoms.append(['sig_check_error', name, sc['error']])
    else:
        if not sc.get('diff_sc_empty') or not sc.get('diff_cs_empty'):
            atoms.append(['stored_sig_diff_nonempty', name, sc.get('diff_text', '')[:200]])
        elif not sc.get('equal'):
            atoms.append(['stored_sig_unequal', name])
    return True


def run_failed(name, res, atoms):
    """Appends an atom if any tool step of a run failed.  Returns True if failed."""
    if res.get('driver_error'):
        atoms.append(['driver_error', name, res['driver_error'][-300:]])
        return True
    for s in res['steps']:
        if not s['ok']:
            e = s['exc']
            atoms.append(['run_failed', name, e['type'], e.get('where'), e['msg'][:160]])
            return True
    return False


def check(case):
    from .. import findings as F
    out = {'labels': ['entry:' + case['entry']], 'atoms': [], 'nontrivial': False}
    atoms = out['atoms']
    h = case['history']
    try:
        vers = H.versions(h)
    except (R.RefInvalid, KeyError, TypeError, AttributeError):
        out['rejected'] = 'ref_invalid'
        return out
    n = len(vers) - 1
    if n < 1:
        out['rejected'] = 'empty_history'
        return out
    for st_ in h['steps']:
        out['labels'].append('step:' + st_['type'])
        if st_['type'] == 'evolve':
            for m in st_['seq']:
                out['labels'].append('mut:' + m['kind'])
    out['labels'].append('n:%d' % n)
    if len(vers[0]['apps']) > 1:
        out['labels'].append('two_apps')
    vn = vers[n]
    named = S.used_names(vn['spec'])
    entry = case['entry']
    executed_change = False
    out['path_info'] = {}
    # structural flags of the whole history per app (a fresh install simulates every evolution
    # of the app's SEQUENCE to find its upgrade method)
    whole = H.pending_sequence(h, 0)
    fl0, _t0 = F.c03_flags({'mode': 'walk', 'spec': H.reference_start(h, vers, 0),
                            'seq': copy.deepcopy(whole), 'cuts': []}, {}) if whole else ({}, None)
    out['history_flags'] = sorted({x for v in fl0.values() for x in v})
    with P.Scratch('c04_') as sc:
        dirs = H.write_versions(sc, vers)
        fresh = []
        for i in range(n + 1):
            db = sc.sub('fresh%d.sqlite3' % i)
            res = P.run_driver(dirs[i], db, {'steps': [upgrade_step(entry)]})
            if run_failed('fresh%d' % i, res, atoms):
                return out
            fresh.append((db, res))
        fresh_n = fresh[n][1]['dumps']['default']
        judge_end('fresh%d' % n, fresh[n][1], fresh_n, vn, atoms, named)
        paths = [('direct%d' % i, i, [n]) for i in range(n)]
        if n >= 2:
            paths.append(('stepwise0', 0, list(range(1, n + 1))))
        for name, i, stops in paths:
            seq = H.pending_sequence(h, i)
            # structural flags of open optimiser findings on what one run has pending
            flagged = set()
            prev = i
            for stop in stops:
                pend = H.pending_sequence(h, prev, stop)
                if pend:
                    fl, _t = F.c03_flags({'mode': 'walk', 'spec': H.reference_start(h, vers, prev),
                                          'seq': copy.deepcopy(pend), 'cuts': []}, {})
                    for v in fl.values():
                        flagged |= v
                prev = stop
            if flagged:
                out['labels'].append('path_skipped(C03 flags)')
                for fl in sorted(flagged):
                    out['labels'].append('flag:' + fl)
                continue
            db = sc.sub('%s.sqlite3' % name)
            shutil.copy(fresh[i][0], db)
            rows, links = case['rows_at'].get(str(i), [{}, {}])
            steps0 = [{'op': 'insert_rows', 'spec': vers[i]['spec'], 'rows': rows, 'links': links}]
            last = None
            failed = False
            rebuilt = set()
            from .. import inproc
            for k, stop in enumerate(stops):
                steps = (steps0 if k == 0 else []) + [upgrade_step(entry)]
                last = P.run_driver(dirs[stop], db, {'steps': steps})
                if run_failed(name, last, atoms):
                    failed = True
                    break
                if any(s.get('n_change') for s in last['steps'] if s['op'] != 'insert_rows'):
                    executed_change = True
                for s_ in last['steps']:
                    stmts = [(t[2], None) for t in s_['trace'] if t[0] == 'sql']
                    rebuilt |= set(inproc.rebuild_counts(stmts))
            if failed:
                continue
            out['path_info'][name] = {'rebuilt': sorted(rebuilt)}
            judge_end(name, last, fresh_n, vn, atoms, named)
            # rows against the reference model
            try:
                exp_rows, exp_links = EC.evolve_rows(H.reference_start(h, vers, i), seq,
                                                     rows, links)
                act_rows, act_links, probs = EC.read_rows_from_tables(
                    vn['spec'], last['dumps']['default']['tables'])
                for a in EC.compare_rows(vn['spec'], act_rows, act_links, exp_rows, exp_links):
                    atoms.append(['path_rows', name] + a[1:])
            except Exception as e:
                # the reference model cannot replay this history on one spec (a model
                # introduced later reuses a name): rows are not judged for this path
                out['labels'].append('rows_not_judged')
            # second run: nothing to do
            before = last['dumps']['default']['tables']
            again = P.run_driver(dirs[n], db, {'steps': [{'op': 'evolver_info'},
                                                         upgrade_step(entry)]})
            if run_failed(name + ':second', again, atoms):
                continue
            info, up = again['steps']
            if info.get('evolution_required'):
                atoms.append(['second_run_requires_evolution', name])
            if not info.get('diff_empty'):
                atoms.append(['second_run_diff_nonempty', name, info.get('diff_text', '')[:200]])
            if up['n_change']:
                chg = [t[2][:80] for t in up['trace'] if t[0] == 'sql' and
                       __import__('pbt.inproc', fromlist=['x']).is_change(t[2])]
                atoms.append(['second_run_executed_sql', name, chg[:3]])
            if entry == 'evolve_cmd' and 'No database upgrade required' not in up['stdout']:
                atoms.append(['second_run_message', name, up['stdout'][:120]])
            if again['dumps']['default']['tables'] != before:
                atoms.append(['second_run_changed_state', name])
            out['labels'].append('path:' + name.rstrip('0123456789'))
    out['nontrivial'] = bool(executed_change and any(s['type'] == 'evolve' for s in h['steps']))
    from ..run import sha
    out['nontrivial_keys'] = [sha(h)]
    out['sample'] = {'entry': entry, 'v0': {a: sorted(v['models']) for a, v in h['v0']['apps'].items()},
                     'steps': [(s['type'], s['app'], [__import__('pbt.render', fromlist=['x']).describe(m)
                                                      for m in s.get('seq', [])] or
                                s.get('model', {}).get('name')) for s in h['steps']]}
    return out


def atom_bucket(atom):
    if atom[0] == 'path_schema':
        return 'path_schema:%s:%s:%s' % (atom[1].rstrip('0123456789'), atom[3], atom[5])
    if atom[0] == 'run_failed':
        return 'run_failed:%s:%s:%s' % (atom[1].rstrip('0123456789'), atom[2], atom[3])
    if atom[0] == 'path_rows':
        return 'path_rows:%s:%s' % (atom[1].rstrip('0123456789'), atom[2])
    return '%s:%s' % (atom[0], str(atom[1]).rstrip('0123456789'))


def candidates(case):
    for c in H.history_candidates(case):
        yield c
    if case['entry'] != 'api':
        yield dict(copy.deepcopy(case), entry='api')
