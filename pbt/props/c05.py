"""C05 - the hinted evolution for a model change fully resolves that change;
== agrees with diff."""
import copy
import json

from hypothesis import strategies as st

from .. import evolvecase as EC
from .. import shrink as SH
from .. import specs as S
from .. import mutgen
from .. import refmodel as R

ID = 'C05'
LEVEL = 'exploration'
RULE = ('Pairs (old, new) of project signatures built from generated model sets: new is old '
        'edited by supported changes (fields added/deleted/re-typed, every tracked attribute '
        'alone and combined, unique_together/index_together/indexes/constraints edits, deleted '
        'models, re-targeted relations) plus directly constructed variants of one signature '
        '(defaults stated explicitly, reversed index/constraint lists, changed table/pk column). '
        'Checked: closure diff->hint->simulate->empty diff (placeholders replaced by generated '
        'initials); Diff(s,s) and Diff(s,clone) empty, s == clone; for every generated pair '
        '(a == b) <=> Diff(a,b) and Diff(b,a) both empty. Non-trivial: the pair differs in >=1 '
        'attribute class; distinct = distinct (set of differing classes, field kinds, variant ops).')
ASSUMPTIONS = [
    'pairs that add models/apps are excluded from the closure clause (the evolver creates those, '
    'hints do not)',
    'db_table_comment is excluded (unsupported on SQLite)',
]
MIN_EVALUATIONS = {'quick': 300, 'thorough': 20000}


def setup_worker():
    from .. import env
    env.setup()


VARIANT_OPS = ['explicit_default', 'reverse_indexes', 'reverse_constraints', 'reverse_unique_together',
               'table_name', 'pk_column', 'tuple_fields']


@st.composite
def cases(draw, stratum):
    feats = S.Features()
    spec = mutgen.ensure_uids(draw(S.project_specs(feats)))
    avoid = set() if stratum == 'known' else {'readd_name', 'multi_delete_hinted'}
    if stratum == 'meta_multi':
        # several models of one app change Meta options in the same diff
        spec = mutgen.ensure_uids(draw(S.project_specs(S.Features(two_apps=False), min_models=2)))
        seq = []
        cur = spec
        k = 0
        for a, n, m in list(S.iter_models(spec)):
            for prop in draw(st.lists(st.sampled_from(['indexes', 'constraints', 'unique_together',
                                                       'index_together']),
                                      min_size=0, max_size=2, unique=True)):
                val = draw(mutgen.draw_meta_value(cur, S.get_model(cur, a, n), prop, feats,
                                                  'mm%d' % k))
                k += 1
                mut = {'kind': 'ChangeMeta', 'app': a, 'model': n, 'prop': prop, 'value': val}
                try:
                    cur = R.apply(cur, mut, strict=True)
                except R.RefInvalid:
                    continue
                seq.append(mut)
    else:
        seq, _final = draw(mutgen.edited_targets(spec, feats, max_edits=5, avoid=avoid,
                                                 retarget=(stratum == 'known')))
    nvar = draw(st.integers(0, 2))
    variant = []
    models = [(a, n) for a, n, _m in S.iter_models(spec)]
    for _ in range(nvar):
        op = draw(st.sampled_from(VARIANT_OPS))
        a, n = draw(st.sampled_from(models))
        m = S.get_model(spec, a, n)
        entry = {'op': op, 'app': a, 'model': n}
        if op == 'explicit_default':
            cols = [f for f in m['fields']]
            if not cols:
                continue
            f = draw(st.sampled_from(cols))
            entry['field'] = f['name']
            entry['attr'] = draw(st.sampled_from(['null', 'db_index', 'unique', 'db_column',
                                                  'max_length', 'primary_key']))
        variant.append(entry)
    return {'mode': 'hinted', 'spec': spec, 'seq': seq, 'variant': variant, 'rows': {}, 'links': {}}


def jobs(tier, scale=1.0):
    per = int((300 if tier == 'quick' else 20000) * scale)
    strata = ['main', 'meta_multi', 'main', 'known']
    return [{'kind': 'hyp', 'stratum': strata[i % 4], 'shard': i, 'examples': per}
            for i in range(16)]


def run_job(job, seed, rec, tier):
    from .. import run as RUN
    setup_worker()
    if job['kind'] == 'replay':
        with open(job['file']) as fh:
            doc = json.load(fh)
        case = doc.get('case', doc)
        rec.record(case, check(case))
        return
    RUN.hyp_job(cases(job['stratum']), check, job['examples'], seed, rec,
                max_seconds=(100 if tier == 'quick' else 3000))


def apply_variant(sig, variant):
    """Logically-equivalent (explicit defaults, tuple) or deliberately different
    (order, table, pk) variants of a signature, built directly."""
    sig = sig.clone()
    labels = []
    for v in variant:
        app_sig = sig.get_app_sig(v['app'])
        if app_sig is None:
            continue
        ms = app_sig.get_model_sig(v['model'])
        if ms is None:
            continue
        op = v['op']
        if op == 'explicit_default':
            fs = ms.get_field_sig(v['field'])
            if fs is None or v['attr'] in fs.field_attrs:
                continue
            fs.field_attrs[v['attr']] = fs.get_attr_default(v['attr'])
            labels.append('explicit_default:' + v['attr'])
        elif op == 'reverse_indexes':
            if len(ms.index_sigs) > 1:
                ms.index_sigs = list(reversed(ms.index_sigs))
                labels.append(op)
        elif op == 'reverse_constraints':
            if len(ms.constraint_sigs) > 1:
                ms.constraint_sigs = list(reversed(ms.constraint_sigs))
                labels.append(op)
        elif op == 'reverse_unique_together':
            if len(ms.unique_together) > 1:
                ms.unique_together = list(reversed(ms.unique_together))
                labels.append(op)
        elif op == 'table_name':
            ms.table_name = ms.table_name + '_x'
            labels.append(op)
        elif op == 'pk_column':
            ms.pk_column = 'other_pk'
            labels.append(op)
        elif op == 'tuple_fields':
            for isig in ms.index_sigs:
                if isinstance(isig.fields, list):
                    isig.fields = tuple(isig.fields)
                    labels.append(op)
                    break
    return sig, labels


def diff_empty(a, b):
    from django_evolution.diff import Diff
    d = Diff(a, b)
    return d.is_empty(ignore_apps=False), str(d)


def eq_vs_diff(name, a, b, atoms, labels):
    """Clause 3 on one pair."""
    try:
        e1, s1 = diff_empty(a, b)
        e2, s2 = diff_empty(b, a)
        eq = (a == b)
        eq2 = (b == a)
        ne = (a != b)
    except Exception as e:
        atoms.append(['eq_diff_error', name, type(e).__name__, str(e)[:120]])
        return
    if eq != eq2 or eq == ne:
        atoms.append(['eq_inconsistent', name, eq, eq2, ne])
    if eq and not (e1 and e2):
        atoms.append(['equal_but_diff_nonempty', name, (s1 or s2)[:200]])
    if (e1 and e2) and not eq:
        atoms.append(['diff_empty_but_unequal', name, where_unequal(a, b)])
    labels.append('pair:%s:%s' % (name, 'equal' if eq else ('diff_empty' if e1 and e2 else 'different')))


def where_unequal(a, b):
    """Name the attribute class in which two diff-equal signatures differ."""
    try:
        for app in a.app_sigs:
            other = b.get_app_sig(app.app_id)
            if other is None:
                return 'app_missing'
            if app == other:
                continue
            for ms in app.model_sigs:
                om = other.get_model_sig(ms.model_name)
                if om is None:
                    return 'model_missing'
                if ms == om:
                    continue
                for fs in ms.field_sigs:
                    of = om.get_field_sig(fs.field_name)
                    if of is None:
                        return 'field_missing'
                    if fs != of:
                        keys = set(fs.field_attrs) ^ set(of.field_attrs)
                        if keys:
                            return 'explicit_default:' + ','.join(sorted(keys))
                        return 'field_attr_value'
                return 'model_meta'
            return 'app_meta'
    except Exception as e:
        return 'error:%r' % e
    return 'unknown'


def check(case):
    from .. import env, inproc, render
    env.setup()
    from django_evolution.diff import Diff
    from django_evolution.errors import SimulationFailure
    out = {'labels': [], 'atoms': [], 'nontrivial': False}
    spec = mutgen.ensure_uids(copy.deepcopy(case['spec']))
    seq = mutgen.ensure_seq_uids(case['seq'])
    try:
        R.validate(spec)
        final = R.apply_all(spec, seq, strict=True)
    except (R.RefInvalid, KeyError, TypeError, AttributeError) as e:
        out['rejected'] = 'ref_invalid'
        return out
    env.reset_all()
    _reg, old_map = render.build_models(spec)
    old = render.project_sig(old_map, apps=sorted(spec['apps']))
    new_map = inproc.register_global(final)
    new = render.project_sig(new_map, apps=sorted(final['apps']))
    atoms = out['atoms']
    labels = out['labels']
    # clause 2
    for name, s in (('old', old), ('new', new)):
        try:
            c = s.clone()
            for x, y, tag in ((s, s, 'self'), (s, c, 'clone'), (c, s, 'clone_rev')):
                empty, text = diff_empty(x, y)
                if not empty:
                    atoms.append(['self_diff_nonempty', name, tag, text[:200]])
            if not (s == c) or (s != c):
                atoms.append(['clone_unequal', name])
        except Exception as e:
            atoms.append(['self_diff_error', name, type(e).__name__, str(e)[:120]])
    # clause 1: closure
    classes = set()
    try:
        d = Diff(old, new)
        changed = not d.is_empty(ignore_apps=False)
        hinted = d.evolution()
        sim = old.clone()
        initials = EC.hinted_initials(spec, seq)
        ok = True
        for app, muts in hinted.items():
            EC.replace_placeholders(muts, initials)
            for m in muts:
                classes.add(type(m).__name__)
                try:
                    m.run_simulation(app_label=app, project_sig=sim, database_state=None,
                                     database='default')
                except SimulationFailure as e:
                    atoms.append(['hint_rejected', type(m).__name__, str(e)[:160]])
                    ok = False
                    break
            if not ok:
                break
        if ok:
            e1, s1 = diff_empty(sim, new)
            e2, s2 = diff_empty(new, sim)
            if not e1:
                atoms.append(['closure_residual', classify_residual(s1)])
            elif not e2:
                atoms.append(['closure_residual_reverse', classify_residual(s2)])
            eq_vs_diff('sim_new', sim, new, atoms, labels)
        eq_vs_diff('old_new', old, new, atoms, labels)
        out['nontrivial'] = bool(changed)
    except Exception as e:
        atoms.append(EC.exception_atom(e, 'closure'))
    # clause 3 on directly constructed variants
    try:
        var, vlabels = apply_variant(new, case.get('variant') or [])
        for lab in vlabels:
            labels.append('variant:' + lab)
        if vlabels:
            eq_vs_diff('variant:' + '+'.join(sorted(set(vlabels))), new, var, atoms, labels)
            out['nontrivial'] = True
    except Exception as e:
        atoms.append(EC.exception_atom(e, 'variant'))
    for mut in seq:
        labels.append('edit:' + mut['kind'])
        if mut['kind'] == 'ChangeField':
            for a in mut['attrs']:
                labels.append('edit_attr:' + a)
            if mut.get('field_kind'):
                labels.append('edit_attr:field_type')
    kinds = sorted({f['kind'] for _a, _n, m in S.iter_models(spec) for f in m['fields']})
    from ..run import sha
    out['nontrivial_keys'] = [sha([sorted(classes), kinds,
                                   sorted(l for l in labels if l.startswith(('variant', 'edit_attr')))])]
    out['sample'] = {'spec': case['spec'], 'edits': [render.describe(m) for m in seq],
                     'variant': case.get('variant')}
    return out


def classify_residual(text):
    import re
    props = sorted(set(re.findall(r"Property '([a-z_]+)' has changed", text)))
    metas = sorted(set(re.findall(r"Meta property '([a-z_]+)' has changed", text)))
    other = []
    if 'has been added' in text:
        other.append('added')
    if 'has been deleted' in text:
        other.append('deleted')
    return 'props=%s metas=%s %s' % (','.join(props), ','.join(metas), ','.join(other))


def atom_bucket(atom):
    if atom[0] in ('closure_residual', 'closure_residual_reverse'):
        return '%s:%s' % (atom[0], atom[1])
    if atom[0] in ('diff_empty_but_unequal',):
        return '%s:%s:%s' % (atom[0], atom[1].split(':')[0], atom[2])
    if atom[0] in ('equal_but_diff_nonempty', 'diff_asymmetric'):
        return '%s:%s' % (atom[0], atom[1])
    if atom[0] == 'exception':
        return 'exception:%s:%s:%s' % (atom[1], atom[2], atom[3])
    if atom[0] == 'hint_rejected':
        return 'hint_rejected:%s' % atom[1]
    return str(atom[0])


def candidates(case):
    if case.get('variant'):
        for i in range(len(case['variant'])):
            c = copy.deepcopy(case)
            del c['variant'][i]
            yield c
    for c in SH.spec_seq_candidates(case):
        yield c
