"""C06 - stored project signatures read back exactly as written."""
import copy
import json
from collections import OrderedDict

from hypothesis import strategies as st

from .. import evolvecase as EC
from .. import shrink as SH
from .. import specs as S
from .. import mutgen
from .. import refmodel as R
from .. import values as V

ID = 'C06'
LEVEL = 'exploration'
RULE = ('Project signatures built (a) from generated model sets over the whole field/Meta space '
        '(relations, partial indexes, check/unique constraints with conditions) and (b) by '
        'direct construction on top of them: index signatures with ordering prefixes, '
        'expressions (F, Value, combined expressions, OrderBy, Lower), include, opclasses, '
        'db_tablespace and Q conditions; check/unique constraint signatures with nested, '
        'negated, OR/XOR, empty and single-child Q trees, deferrable enums, tuple vs list '
        'attributes; explicit None/False/0 field attributes; upgrade methods and '
        'applied-migration lists. Three paths: serialize -> json -> loads(object_pairs_hook='
        'OrderedDict) -> deserialize; Version(signature=sig).save() -> reload on SQLite; and '
        'v2 -> v1 -> pickle -> v2 for the v1-expressible part. Oracle: read-back == original, '
        'both diffs empty, identical stored text, second round trip changes nothing. '
        'Non-trivial: the signature contains >=1 deconstructed value, non-list/dict container '
        'or explicit attribute; distinct = SHA-1 of the case.')
ASSUMPTIONS = [
    'SQLite; the stored text is compared as produced by SignatureField._dumps',
    'v1 comparison covers what version 1 can express (fields, attrs, relations, '
    'unique_together, index_together, index names/fields)',
]
MIN_EVALUATIONS = {'quick': 300, 'thorough': 20000}


def setup_worker():
    from .. import env
    env.setup()


@st.composite
def extras(draw, spec, rich):
    out = []
    models = [(a, n, m) for a, n, m in S.iter_models(spec)]
    n = draw(st.integers(0, 3))
    for i in range(n):
        a, name, m = draw(st.sampled_from(models))
        cols = [f['name'] for f in m['fields'] if f['kind'] != 'ManyToMany'] or ['id']
        op = draw(st.sampled_from(['index', 'constraint', 'app_meta', 'field_attr']))
        if op == 'index':
            e = {'op': 'index', 'app': a, 'model': name, 'name': 'x%d_ix' % i, 'attrs': {}}
            if draw(st.booleans()):
                flds = draw(st.lists(st.sampled_from(cols), min_size=1, max_size=2, unique=True))
                e['fields'] = [('-' + f if draw(st.integers(0, 2)) == 0 else f) for f in flds]
                e['expressions'] = None
            else:
                e['fields'] = None
                e['expressions'] = draw(st.lists(V.expr_values(2), min_size=1, max_size=2))
            if draw(st.booleans()):
                e['attrs']['condition'] = draw(V.q_values(3 if rich else 1))
            if e['fields'] and draw(st.integers(0, 2)) == 0:
                e['attrs']['include'] = {'t': draw(st.sampled_from(['tuple', 'list'])),
                                         'v': [{'t': 'str', 'v': c} for c in cols[:2]]}
            if e['fields'] and draw(st.integers(0, 3)) == 0:
                e['attrs']['opclasses'] = {'t': draw(st.sampled_from(['tuple', 'list'])),
                                           'v': [{'t': 'str', 'v': 'text_pattern_ops'}
                                                 for _ in e['fields']]}
            if draw(st.integers(0, 3)) == 0:
                e['attrs']['db_tablespace'] = {'t': 'str', 'v': draw(st.sampled_from(V.STRINGS[1:]))}
            out.append(e)
        elif op == 'constraint':
            ctype = draw(st.sampled_from(['check', 'unique']))
            e = {'op': 'constraint', 'app': a, 'model': name, 'ctype': ctype, 'name': 'x%d_c' % i,
                 'attrs': {}}
            if ctype == 'check':
                e['attrs']['check'] = draw(V.q_values(3 if rich else 1))
            else:
                flds = draw(st.lists(st.sampled_from(cols), min_size=1, max_size=2, unique=True))
                e['attrs']['fields'] = {'t': draw(st.sampled_from(['tuple', 'tuple', 'list'])),
                                        'v': [{'t': 'str', 'v': c} for c in flds]}
                which = draw(st.sampled_from(['plain', 'condition', 'deferrable', 'include']))
                if which == 'condition':
                    e['attrs']['condition'] = draw(V.q_values(3 if rich else 1))
                elif which == 'deferrable':
                    e['attrs']['deferrable'] = {'t': 'deferrable',
                                                'v': draw(st.sampled_from(['DEFERRED', 'IMMEDIATE']))}
                elif which == 'include':
                    e['attrs']['include'] = {'t': 'tuple', 'v': [{'t': 'str', 'v': cols[0]}]}
            out.append(e)
        elif op == 'app_meta':
            if any(x['op'] == 'app_meta' and x['app'] == a for x in out):
                continue
            um = draw(st.sampled_from([None, 'evolutions', 'migrations']))
            e = {'op': 'app_meta', 'app': a, 'upgrade_method': um, 'applied_migrations': None,
                 'legacy_app_label': draw(st.sampled_from([None, 'legacy_' + a]))}
            if um == 'migrations':
                e['applied_migrations'] = sorted(draw(st.lists(
                    st.sampled_from(['0001_initial', '0002_more', '0003_x']), unique=True)))
            out.append(e)
        else:
            fields = [f for f in m['fields']]
            if not fields:
                continue
            f = draw(st.sampled_from(fields))
            attr = draw(st.sampled_from(['null', 'db_index', 'unique', 'db_column', 'max_length',
                                         'primary_key']))
            val = draw(st.sampled_from([None, False, 0, '', 'é"\'']))
            if attr in ('null', 'db_index', 'unique', 'primary_key'):
                val = draw(st.sampled_from([False, True]))
            if attr == 'max_length':
                val = draw(st.sampled_from([None, 0, 255]))
            if attr == 'db_column':
                val = draw(st.sampled_from([None, '', 'col é', 'q"uote']))
            out.append({'op': 'field_attr', 'app': a, 'model': name, 'field': f['name'],
                        'attr': attr, 'value': val})
    return out


@st.composite
def cases(draw, stratum):
    feats = S.Features()
    spec = mutgen.ensure_uids(draw(S.project_specs(feats)))
    ex = draw(extras(spec, rich=(stratum != 'simple')))
    return {'spec': spec, 'extras': ex}


def jobs(tier, scale=1.0):
    per = int((250 if tier == 'quick' else 20000) * scale)
    strata = ['rich', 'simple', 'rich', 'models_only']
    return [{'kind': 'hyp', 'stratum': strata[i % 4], 'shard': i, 'examples': per}
            for i in range(16)]


def run_job(job, seed, rec, tier):
    from .. import run as RUN
    setup_worker()
    if job['kind'] == 'replay':
        with open(job['file']) as fh:
            doc = json.load(fh)
        case = doc.get('case', doc)
        rec.record(case, check(case))
        return
    strat = cases(job['stratum'])
    if job['stratum'] == 'models_only':
        strat = strat.map(lambda c: dict(c, extras=[]))
    RUN.hyp_job(strat, check, job['examples'], seed, rec,
                max_seconds=(100 if tier == 'quick' else 3000))


def build_signature(case):
    from .. import env, render
    from django.db import models
    from django_evolution.signature import ConstraintSignature, IndexSignature
    env.reset_registry()
    spec = case['spec']
    _reg, model_map = render.build_models(spec)
    sig = render.project_sig(model_map, apps=sorted(spec['apps']))
    for e in case.get('extras') or []:
        app_sig = sig.get_app_sig(e['app'])
        if app_sig is None:
            continue
        if e['op'] == 'app_meta':
            app_sig.upgrade_method = e['upgrade_method']
            if e['legacy_app_label']:
                app_sig.legacy_app_label = e['legacy_app_label']
            if e['applied_migrations'] is not None:
                app_sig.applied_migrations = e['applied_migrations']
            continue
        ms = app_sig.get_model_sig(e['model'])
        if ms is None:
            continue
        if e['op'] == 'index':
            attrs = dict((k, V.build(v)) for k, v in e['attrs'].items())
            exprs = [V.build(x) for x in e['expressions']] if e['expressions'] else None
            ms.add_index_sig(IndexSignature(name=e['name'], fields=e['fields'],
                                            expressions=exprs, attrs=attrs))
        elif e['op'] == 'constraint':
            attrs = dict((k, V.build(v)) for k, v in e['attrs'].items())
            ctype = models.CheckConstraint if e['ctype'] == 'check' else models.UniqueConstraint
            ms.add_constraint_sig(ConstraintSignature(name=e['name'], constraint_type=ctype,
                                                      attrs=attrs))
        elif e['op'] == 'field_attr':
            fs = ms.get_field_sig(e['field'])
            if fs is not None:
                fs.field_attrs[e['attr']] = e['value']
    return sig


def first_diff(a, b, path=''):
    """Path (list indexes stripped) of the first difference of two JSON-ish trees."""
    if type(a) != type(b) and not (isinstance(a, dict) and isinstance(b, dict)):
        return '%s<%s!=%s>' % (path, type(a).__name__, type(b).__name__)
    if isinstance(a, dict):
        for k in sorted(set(a) | set(b), key=str):
            if k not in a or k not in b:
                return '%s/%s<missing>' % (path, k)
            d = first_diff(a[k], b[k], '%s/%s' % (path, k if not str(k)[:1].isupper() else '*'))
            if d:
                return d
        return None
    if isinstance(a, (list, tuple)):
        if len(a) != len(b):
            return '%s<len>' % path
        for x, y in zip(a, b):
            d = first_diff(x, y, path + '[]')
            if d:
                return d
        return None
    return None if a == b else '%s<value>' % path


def strip_names(path):
    import re
    # keep structural keys, drop app/model/field names
    keep = ('apps', 'models', 'fields', 'meta', 'indexes', 'constraints', 'attrs', 'condition',
            'check', 'expressions', 'include', 'opclasses', 'deferrable', 'unique_together',
            'index_together', 'applied_migrations', 'upgrade_method', 'legacy_app_label',
            'related_model', 'type', 'name', 'db_tablespace', 'args', 'kwargs', 'children',
            '_connector', '_negated', '_deconstructed', '_enum', 'value', 'field_attrs')
    parts = [p for p in re.split(r'/', path) if p]
    out = []
    for p in parts:
        base = re.sub(r'(\[\])+|<.*>$', '', p)
        suffix = p[len(base):]
        out.append((base if base in keep else '*') + suffix)
    return '/'.join(out)


def compare(path, sig, rt, atoms):
    from django_evolution.diff import Diff
    from django_evolution.models import SignatureField
    f = SignatureField()
    where = None
    try:
        where = first_diff(sig.serialize(), rt.serialize())
    except Exception as e:
        where = 'reserialize failed: %s' % type(e).__name__
    where = strip_names(where) if where else None
    try:
        if not (rt == sig) or (rt != sig):
            atoms.append(['rt_unequal', path, where])
    except Exception as e:
        atoms.append(['rt_exception', path, 'eq', type(e).__name__, str(e)[:100]])
    for a, b, tag in ((sig, rt, 'orig->rt'), (rt, sig, 'rt->orig')):
        try:
            d = Diff(a, b)
            if not d.is_empty(ignore_apps=False):
                atoms.append(['rt_diff_nonempty', path, tag, _classify(str(d))])
        except Exception as e:
            atoms.append(['rt_exception', path, 'diff', type(e).__name__, str(e)[:100]])
    try:
        ta, tb = f._dumps(rt), f._dumps(sig)
        # same stored text up to the order of JSON object keys (key order carries no meaning
        # and depends on attribute insertion order only)
        if ta != tb and json.loads(ta[len('json!'):]) != json.loads(tb[len('json!'):]):
            atoms.append(['rt_text_differs', path, where])
    except Exception as e:
        atoms.append(['rt_exception', path, 'dumps', type(e).__name__, str(e)[:100]])


def _classify(text):
    import re
    props = sorted(set(re.findall(r"Property '([a-z_]+)' has changed", text)))
    metas = sorted(set(re.findall(r"Meta property '([a-z_]+)' has changed", text)))
    return 'props=%s metas=%s%s' % (','.join(props), ','.join(metas),
                                    ' other' if not props and not metas else '')


def check(case):
    from .. import env, render
    env.setup()
    from django.db import connections
    from django_evolution.models import Version, Evolution, SignatureField
    from django_evolution.signature import ProjectSignature
    from django_evolution.compat.py23 import pickle_dumps, pickle_loads
    out = {'labels': [], 'atoms': [], 'nontrivial': False}
    atoms = out['atoms']
    try:
        R.validate(mutgen.ensure_uids(copy.deepcopy(case['spec'])))
    except R.RefInvalid:
        out['rejected'] = 'ref_invalid'
        return out
    try:
        sig = build_signature(case)
    except Exception as e:
        out['rejected'] = 'build_failed:%s' % type(e).__name__
        out['error'] = repr(e)[:200]
        return out
    for e in case.get('extras') or []:
        out['labels'].append('extra:' + e['op'] + (':' + e['ctype'] if e['op'] == 'constraint' else ''))
        if V.contains(e, ('q',)):
            out['labels'].append('has_q')
        if V.contains(e, ('f', 'value', 'combined', 'orderby', 'lower')):
            out['labels'].append('has_expression')
        if V.contains(e, ('tuple',)):
            out['labels'].append('has_tuple')
        if V.contains(e, ('deferrable',)):
            out['labels'].append('has_enum')
    spec_has_q = any(ix.get('condition') for _a, _n, m in S.iter_models(case['spec'])
                     for ix in m['indexes']) or any(
        c.get('condition') or c.get('check') for _a, _n, m in S.iter_models(case['spec'])
        for c in m['constraints'])
    if spec_has_q:
        out['labels'].append('model_has_q')
    out['nontrivial'] = bool(case.get('extras') or spec_has_q or any(
        m['constraints'] or m['indexes'] for _a, _n, m in S.iter_models(case['spec'])))
    # path 1: json with OrderedDict hook (what SignatureField.to_python does)
    rt1 = None
    try:
        text = json.dumps(sig.serialize())
        rt1 = ProjectSignature.deserialize(json.loads(text, object_pairs_hook=OrderedDict))
        compare('json', sig, rt1, atoms)
        try:
            rt1b = ProjectSignature.deserialize(
                json.loads(json.dumps(rt1.serialize()), object_pairs_hook=OrderedDict))
            if json.dumps(rt1b.serialize(), sort_keys=True) != json.dumps(rt1.serialize(), sort_keys=True):
                atoms.append(['rt_not_idempotent', 'json'])
        except Exception as e:
            atoms.append(['rt_exception', 'json2', 'second', type(e).__name__, str(e)[:100]])
    except Exception as e:
        atoms.append(['rt_exception', 'json', 'roundtrip', type(e).__name__, str(e)[:100]])
    # path 2: the real storage path
    try:
        conn = connections['default']
        if 'django_project_version' not in conn.introspection.table_names():
            with conn.schema_editor() as editor:
                editor.create_model(Version)
                editor.create_model(Evolution)
        v = Version(signature=sig)
        v.save()
        rt2 = Version.objects.get(pk=v.pk).signature
        compare('version', sig, rt2, atoms)
        v.delete()
    except Exception as e:
        atoms.append(['rt_exception', 'version', 'roundtrip', type(e).__name__, str(e)[:100]])
    # path 3: v2 -> v1 -> pickle -> v2 (v1-expressible content)
    try:
        v1 = sig.serialize(sig_version=1)
        rt3 = ProjectSignature.deserialize(pickle_loads(pickle_dumps(v1)))
        a = logical_v1(sig)
        b = logical_v1(rt3)
        if a != b:
            atoms.append(['v1_content_differs', strip_names(first_diff(a, b) or '?')])
    except Exception as e:
        atoms.append(['rt_exception', 'v1', 'roundtrip', type(e).__name__, str(e)[:100]])
    from ..run import sha
    out['nontrivial_keys'] = [sha(case)]
    out['sample'] = {'extras': case.get('extras'),
                     'models': [(a, n, [f['kind'] for f in m['fields']])
                                for a, n, m in S.iter_models(case['spec'])]}
    return out


def logical_v1(sig):
    """What version 1 can express, as plain data."""
    out = {}
    for app_sig in sig.app_sigs:
        models = {}
        for ms in app_sig.model_sigs:
            fields = {}
            for fs in ms.field_sigs:
                attrs = dict((k, repr(v)) for k, v in fs.field_attrs.items()
                             if not fs.is_attr_value_default(k))
                fields[fs.field_name] = {'type': fs.field_type.__name__, 'attrs': attrs,
                                         'related_model': fs.related_model}
            models[ms.model_name] = {
                'fields': fields,
                'table': ms.table_name, 'pk_column': ms.pk_column,
                'unique_together': [list(t) for t in ms.unique_together],
                'index_together': [list(t) for t in ms.index_together],
                'indexes': [[i.name, list(i.fields or [])] for i in ms.index_sigs
                            if i.fields],
            }
        out[app_sig.app_id] = models
    return out


def atom_bucket(atom):
    if atom[0] in ('rt_unequal', 'rt_text_differs'):
        return '%s:%s:%s' % (atom[0], atom[1], atom[2])
    if atom[0] == 'rt_diff_nonempty':
        return '%s:%s:%s' % (atom[0], atom[1], atom[3])
    if atom[0] == 'rt_exception':
        return '%s:%s:%s:%s' % (atom[0], atom[1], atom[2], atom[3])
    if atom[0] == 'v1_content_differs':
        return 'v1:%s' % atom[1]
    return str(atom[0])


def candidates(case):
    for i in reversed(range(len(case.get('extras') or []))):
        c = copy.deepcopy(case)
        del c['extras'][i]
        yield c
    for i, e in enumerate(case.get('extras') or []):
        for k in list(e.get('attrs') or {}):
            c = copy.deepcopy(case)
            del c['extras'][i]['attrs'][k]
            if c['extras'][i]['op'] == 'constraint' and not c['extras'][i]['attrs']:
                continue
            yield c
    c0 = dict(case, seq=[])
    for c in SH.spec_seq_candidates(c0):
        c.pop('seq', None)
        yield c
