"""C07 - a failed upgrade leaves the database as it was and can be retried."""
import copy
import json
import shutil

from hypothesis import strategies as st

from .. import evolvecase as EC
from .. import history as H
from .. import project as P
from .. import specs as S
from .. import refmodel as R
from . import c04

ID = 'C07'
LEVEL = 'fault_enumeration'
RULE = ('Generated upgrades (project V0 installed with rows, then one run to Vn): stratum '
        '"single" = one app, one evolution label, one optimiser batch (the property\'s '
        'quantifier); stratum "multi" = several labels / new models / two apps in the same run. '
        'For every case the fault-free run is traced and then, for EVERY schema/data-changing '
        'statement index k issued during the upgrade (including the version/evolution '
        'bookkeeping writes), a forked child restores the pristine database, runs the upgrade '
        'with an injected OperationalError at statement k, dumps the database, and another '
        'child retries fault-free. Oracle: the failing run raises an evolution error that names '
        'statement k; every table (schema text, indexes, rows) incl. django_evolution and '
        'django_project_version equals the pre-run dump, the stored signature still describes '
        'the database; the retry succeeds and ends in the uninterrupted run\'s state. '
        'evaluations = (case, k) pairs; non-trivial = k > 1 (something had executed before the '
        'fault); distinct = SHA-1 of (history, k).')
ASSUMPTIONS = [
    'faults are exceptions raised at statement boundaries (not process death); SQLite has '
    'transactional DDL',
    'a forked child of a process that has imported the project but not yet the tool\'s '
    'evolution modules stands for a fresh process',
]
MIN_EVALUATIONS = {'quick': 100, 'thorough': 3000}
SHRINK_CHECKS = 20


@st.composite
def cases(draw, stratum):
    feats = S.Features(meta=False, positive=False)
    if stratum == 'purge':
        # an app is removed from INSTALLED_APPS and purged in the upgrade run
        spec = None
        for _ in range(4):
            spec = draw(S.project_specs(S.Features(meta=False, positive=False, two_apps=True),
                                        min_models=2))
            ok = 'pb' in spec['apps'] and not any(
                f['target'] and f['target'][0] == 'pb'
                for a, _n, m in S.iter_models(spec) if a == 'pa' for f in m['fields'])
            if ok:
                break
        from .. import mutgen
        spec = mutgen.ensure_uids(spec)
        h = {'v0': spec, 'steps': []}
        rows, links = draw(EC.rows_for(spec, [], 2))
        return {'history': h, 'rows': rows, 'links': links, 'entry': 'api', 'stratum': 'purge',
                'purge_app': 'pb'}
    if stratum == 'single':
        h = draw(H.histories(feats, max_steps=1, min_steps=1, allow_new_model=False,
                             allow_new_app=False, apps=('pa',)))
    else:
        h = draw(H.histories(feats, max_steps=3, min_steps=2))
    vers = H.versions(h)
    seq = H.pending_sequence(h, 0)
    rows, links = draw(EC.rows_for(H.reference_start(h, vers, 0), seq, 3))
    rows = {k: v for k, v in rows.items()
            if any(m['uid'] == k for _a, _n, m in S.iter_models(vers[0]['spec']))}
    links = {k: v for k, v in links.items()
             if any(f['uid'] == k for _a, _n, m in S.iter_models(vers[0]['spec'])
                    for f in m['fields'])}
    entry = draw(st.sampled_from(['api', 'evolve_cmd']))
    return {'history': h, 'rows': rows, 'links': links, 'entry': entry, 'stratum': stratum}


def jobs(tier, scale=1.0):
    per = max(1, int((6 if tier == 'quick' else 80) * scale))
    strata = ['single', 'single', 'purge', 'multi']
    return [{'kind': 'hyp', 'stratum': strata[i % 4], 'shard': i, 'examples': per}
            for i in range(16)]


def run_job(job, seed, rec, tier):
    from .. import run as RUN
    if job['kind'] == 'replay':
        with open(job['file']) as fh:
            doc = json.load(fh)
        case = doc.get('case', doc)
        rec.record(case, check(case))
        return
    RUN.hyp_job(cases(job['stratum']), check, job['examples'], seed, rec,
                max_seconds=(150 if tier == 'quick' else 3000))


def state_of(dump):
    """Comparable database state: every table's schema text, indexes and rows;
    the 'when' timestamps of version rows are dropped."""
    d = dump['default']
    tables = {}
    for t, st_ in d['tables'].items():
        rows = st_['rows']
        if t == 'django_project_version':
            wi = st_['cols'].index('when') if 'when' in st_['cols'] else None
            rows = [[v for i, v in enumerate(r) if i != wi] for r in rows]
        tables[t] = {'sql': st_['sql'], 'indexes': st_['indexes'], 'rows': rows}
    return tables


def diff_tables(a, b):
    out = []
    for t in sorted(set(a) | set(b)):
        if t not in a:
            out.append(['table_gained', t])
        elif t not in b:
            out.append(['table_lost', t])
        else:
            if a[t]['sql'] != b[t]['sql']:
                out.append(['table_sql', t])
            if a[t]['indexes'] != b[t]['indexes']:
                out.append(['table_indexes', t])
            if a[t]['rows'] != b[t]['rows']:
                out.append(['table_rows', t])
    return out


def check(case):
    from .. import findings as F
    from .. import inproc
    out = {'labels': ['entry:' + case['entry'], 'stratum:' + case.get('stratum', '?')],
           'atoms': [], 'nontrivial': False, 'evaluations': 0}
    atoms = out['atoms']
    h = case['history']
    try:
        vers = H.versions(h)
    except (R.RefInvalid, KeyError, TypeError, AttributeError):
        out['rejected'] = 'ref_invalid'
        out['evaluations'] = 1
        return out
    n = len(vers) - 1
    purge_app = case.get('purge_app')
    if purge_app:
        dangling = any(f['target'] and f['target'][0] == purge_app
                       for a, _n, m in S.iter_models(vers[n]['spec']) if a != purge_app
                       for f in m['fields'])
        if dangling or purge_app not in vers[0]['spec']['apps'] or len(vers[0]['apps']) < 2:
            out['rejected'] = 'no_app_to_purge'
            out['evaluations'] = 1
            return out
        gone = copy.deepcopy(vers[n])
        gone['apps'] = [a for a in gone['apps'] if a != purge_app]
        gone['spec']['apps'].pop(purge_app, None)
        gone['evolutions'].pop(purge_app, None)
        vers = vers + [gone]
        n = len(vers) - 1
    if n < 1:
        out['rejected'] = 'empty_history'
        out['evaluations'] = 1
        return out
    seq = H.pending_sequence(h, 0)
    if seq:
        fl, _t = F.c03_flags({'mode': 'walk', 'spec': H.reference_start(h, vers, 0),
                              'seq': copy.deepcopy(seq), 'cuts': []}, {})
        if any(fl.values()):
            out['rejected'] = 'c03_flags'
            out['evaluations'] = 1
            return out
    nontrivial_keys = []
    with P.Scratch('c07_') as sc:
        dirs = H.write_versions(sc, [vers[0], vers[n]])
        db = sc.sub('db.sqlite3')
        res = P.run_driver(dirs[0], db, {'steps': [
            c04.upgrade_step('api'),
            {'op': 'insert_rows', 'spec': vers[0]['spec'], 'rows': case['rows'],
             'links': case['links']}]})
        if c04.run_failed('install', res, atoms):
            out['rejected'] = 'install_failed'
            out['atoms'] = []
            out['evaluations'] = 1
            return out
        up = c04.upgrade_step(case['entry'])
        if purge_app:
            up = {'op': 'evolve_api', 'purge': True, 'force': True}
        sweep = P.run_driver(dirs[1], db, {'steps': [
            {'op': 'fault_sweep', 'upgrade': up,
             'max_faults': case.get('max_faults')}], 'dump': []}, timeout=600)
    if sweep.get('driver_error') or 'sweep' not in sweep:
        atoms.append(['driver_error', str(sweep.get('driver_error'))[-300:]])
        return out
    sw = sweep['sweep']
    base = sw.get('baseline') or {}
    if base.get('child_error') or not base.get('run', {}).get('ok'):
        # the upgrade itself does not work: C01/C04's subject
        out['rejected'] = 'baseline_failed'
        out['evaluations'] = 1
        return out
    before = state_of(sw['before'])
    final = state_of(base['dump'])
    stmts = [t[2] for t in base['run']['trace'] if t[0] == 'sql']
    kinds = set()
    for s_ in stmts:
        u = s_.lstrip().upper()
        if u.startswith('CREATE TABLE "TEMP_TABLE"'):
            kinds.add('rebuild')
        elif u.startswith('CREATE TABLE'):
            kinds.add('create_table')
        elif 'INDEX' in u.split('(')[0]:
            kinds.add('index')
        elif 'DJANGO_PROJECT_VERSION' in u or 'DJANGO_EVOLUTION' in u:
            kinds.add('bookkeeping')
    for k_ in sorted(kinds):
        out['labels'].append('batch_has:' + k_)
    from ..run import sha
    for f in sw.get('faults', []):
        k = f['k']
        out['evaluations'] += 1
        if k > 1:
            nontrivial_keys.append(sha([h, k]))
        failed = f['failed']
        if failed.get('child_error'):
            atoms.append(['driver_error', failed['child_error'][-300:]])
            continue
        run = failed['run']
        tag = 'k=%d/%d' % (k, sw['n_change'])
        fault_stmt = next((t[2] for t in run['trace'] if t[0] == 'fault'), None)
        phase = 'evolution'
        if fault_stmt and ('django_project_version' in fault_stmt or
                           'django_evolution' in fault_stmt or
                           'django_content_type' in fault_stmt or
                           'auth_permission' in fault_stmt):
            # version/evolution rows, and the writes of post-migrate handlers
            phase = 'bookkeeping'
        if run['ok']:
            atoms.append(['fault_swallowed', phase])
        else:
            e = run['exc']
            if case['entry'] == 'api' and not e['is_evolution_exception']:
                atoms.append(['not_an_evolution_error', phase, e['type']])
            if case['entry'] == 'evolve_cmd' and not e['is_command_error']:
                atoms.append(['not_a_command_error', phase, e['type']])
            if phase == 'evolution' and case['entry'] == 'api':
                last = e.get('last_sql_statement')
                if not last or last[0].strip() != (fault_stmt or '').strip():
                    atoms.append(['error_names_wrong_statement', phase])
        after = state_of(failed['dump'])
        d = diff_tables(before, after)
        if d:
            atoms.append(['state_changed_by_failed_run', phase,
                          sorted({x[0] for x in d}), 'first' if k == 1 else 'later'])
        sc_ = failed['dump']['default'].get('sig_check') or {}
        if not d and (sc_.get('error')):
            atoms.append(['sig_check_error_after_failure', sc_.get('error')])
        retry = f['retry']
        if retry.get('child_error'):
            atoms.append(['driver_error', retry['child_error'][-300:]])
            continue
        if not retry['run']['ok']:
            atoms.append(['retry_failed', phase, retry['run']['exc']['type'],
                          retry['run']['exc']['msg'][:100]])
        else:
            d2 = diff_tables(final, state_of(retry['dump']))
            if d2:
                atoms.append(['retry_differs_from_uninterrupted', phase,
                              sorted({x[0] for x in d2})])
        out['labels'].append('fault_in:' + phase)
    out['nontrivial'] = bool(nontrivial_keys)
    out['nontrivial_keys'] = nontrivial_keys
    out['sample'] = {'entry': case['entry'], 'n_change': sw.get('n_change'),
                     'statements': stmts[:12]}
    return out


def atom_bucket(atom):
    if atom[0] == 'state_changed_by_failed_run':
        return '%s:%s:%s' % (atom[0], atom[1], atom[3])
    if atom[0] in ('retry_failed',):
        return '%s:%s:%s' % (atom[0], atom[1], atom[2])
    if len(atom) > 1:
        return '%s:%s' % (atom[0], atom[1])
    return atom[0]


def candidates(case):
    for c in H.history_candidates(case):
        yield c
