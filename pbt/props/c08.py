"""C08 - each evolution is applied and recorded exactly once."""
import copy
import json

from hypothesis import strategies as st

from .. import project as P
from .. import specs as S
from .. import mutgen

ID = 'C08'
LEVEL = 'exploration'
RULE = ('Model-based generation of run histories over one database: a program of 4-12 '
        'operations drawn against a generation-time model of the project (apps pa/pb/pc, each '
        'with its own SEQUENCE; all apps draw labels from the same pool e1,e2,.. so labels are '
        'shared between apps). Operations: run (Evolver API or evolve --execute; all apps or a '
        'selected subset; optionally with an injected OperationalError at the k-th changing '
        'statement), grow (an app gains a Python AddField evolution or an SQL-file evolution), '
        'new_model, new_app (an app with 0-3 labels enters INSTALLED_APPS), '
        'mark-evolution-applied, wipe-evolution. Every operation runs in a fresh interpreter; '
        'the django_evolution / django_project_version tables and the executed statements and '
        'signals are read after each. Oracle (invariants over the history): no duplicate '
        '(app,label) row; rows only appear through a completed run or a successful mark command '
        'and only vanish through a successful wipe of exactly the named rows; a failed run adds '
        'no row; rows added by a run carry the id of the one version that run saved and are '
        'exactly the pending labels of the targeted apps; the SQL of a label (its ADD COLUMN) '
        'is executed only in the run that records it, never for a label recorded before the '
        'run, never for an app installed fresh in that run, and at most once per recording in '
        'completed runs; applying_evolution announces only labels recorded by that run. '
        'evaluations = operations judged; non-trivial = a program with >=2 completed runs of '
        'which one applies evolutions to an already installed app; distinct = SHA-1 of the '
        'program.')
ASSUMPTIONS = [
    'every generated evolution adds one nullable column named after its label, so executing a '
    'label is observable as its ADD COLUMN statement',
    'wipe-evolution un-records a label, after which re-applying it is the documented purpose of '
    'the command: the at-most-once count restarts at a successful wipe',
]
MIN_EVALUATIONS = {'quick': 150, 'thorough': 5000}
SHRINK_CHECKS = 25
APPS = ['pa', 'pb', 'pc']


# ---------------------------------------------------------------------------
# project model

def new_state(init):
    """init: {'apps': {app: n_labels}}"""
    st_ = {'apps': [], 'models': {}, 'labels': {}}
    for app in APPS:
        if app in init['apps']:
            add_app(st_, app, init['apps'][app], init.get('sql', {}).get(app, []))
    return st_


def add_app(st_, app, n, sql_idx=(), zero_models=False):
    st_['apps'].append(app)
    # (an app without models still has a SEQUENCE to be recorded)
    st_['models'][app] = [] if zero_models else ['Book']
    st_['labels'][app] = []
    for i in range(n):
        grow(st_, app, 'sql' if i in sql_idx else 'py')


def grow(st_, app, kind):
    n = len(st_['labels'][app]) + 1
    st_['labels'][app].append({'label': 'e%d' % n, 'kind': kind})


def column_of(label):
    return 'c_' + label


def build_version(st_):
    spec = S.new_project()
    evolutions = {}
    for app in st_['apps']:
        for mname in st_['models'][app]:
            fields = [S.new_field('a', 'Integer', null=True)]
            if mname == 'Book':
                for lab in st_['labels'][app]:
                    fields.append(S.new_field(column_of(lab['label']), 'Integer', null=True))
            S.add_model(spec, app, S.new_model(mname, fields))
        evos = []
        for lab in st_['labels'][app]:
            col = column_of(lab['label'])
            if lab['kind'] == 'sql':
                evos.append({'label': lab['label'], 'sql': {'': [
                    'ALTER TABLE "%s_book" ADD COLUMN "%s" integer NULL;' % (app, col)]}})
            else:
                f = S.new_field(col, 'Integer', null=True)
                f['uid'] = '%s.Book.%s' % (app, col)
                evos.append({'label': lab['label'], 'mutations': [
                    {'kind': 'AddField', 'app': app, 'model': 'Book', 'field': f,
                     'initial': None}]})
        evolutions[app] = evos
    spec = mutgen.ensure_uids(spec)
    return {'apps': list(st_['apps']), 'spec': spec, 'evolutions': evolutions, 'deps': {}}


# ---------------------------------------------------------------------------
# generation (with a generation-time model of what is recorded)

@st.composite
def cases(draw, stratum):
    init = {'apps': {'pa': draw(st.integers(0, 2))}, 'sql': {}}
    if draw(st.booleans()):
        init['apps']['pb'] = draw(st.integers(0, 2))
    st_ = new_state(init)
    recorded = {a: set() for a in APPS}       # generation-time guess (all runs succeed)
    installed = set()
    prog = []
    n_ops = draw(st.integers(4, 12 if stratum != 'short' else 6))
    prog.append({'op': 'run', 'entry': draw(st.sampled_from(['api', 'evolve_cmd'])),
                 'apps': None, 'fault_at': None})
    for a in st_['apps']:
        recorded[a] = {l['label'] for l in st_['labels'][a]}
        installed.add(a)
    for _ in range(n_ops):
        choices = ['run', 'run', 'run', 'grow', 'grow', 'grow', 'grow', 'grow', 'new_model',
                   'mark', 'wipe', 'run_subset', 'run_fault']
        if len(st_['apps']) < 3:
            choices.append('new_app')
        k = draw(st.sampled_from(choices))
        if k in ('run', 'run_subset', 'run_fault'):
            op = {'op': 'run', 'entry': draw(st.sampled_from(['api', 'evolve_cmd'])),
                  'apps': None, 'fault_at': None}
            if k == 'run_subset':
                op['entry'] = 'api'
                op['apps'] = draw(st.lists(st.sampled_from(st_['apps']), min_size=1,
                                           max_size=2, unique=True))
            if k == 'run_fault':
                op['fault_at'] = draw(st.integers(1, 4))
            prog.append(op)
            if k != 'run_fault':
                for a in (op['apps'] or st_['apps']):
                    recorded[a] = {l['label'] for l in st_['labels'][a]}
                    installed.add(a)
        elif k == 'grow':
            a = draw(st.sampled_from([x for x in st_['apps'] if st_['models'][x]]))
            kind = draw(st.sampled_from(['py', 'py', 'sql']))
            grow(st_, a, kind)
            prog.append({'op': 'grow', 'app': a, 'kind': kind})
        elif k == 'new_model':
            a = draw(st.sampled_from([x for x in st_['apps'] if st_['models'][x]]))
            free = [m for m in ('Tag', 'Item') if m not in st_['models'][a]]
            if free:
                st_['models'][a].append(free[0])
                prog.append({'op': 'new_model', 'app': a, 'model': free[0]})
        elif k == 'new_app':
            a = [x for x in APPS if x not in st_['apps']][0]
            n = draw(st.integers(0, 3))
            sql_idx = [i for i in range(n) if draw(st.integers(0, 3)) == 0]
            zero = draw(st.integers(0, 3)) == 0
            add_app(st_, a, n, sql_idx, zero)
            prog.append({'op': 'new_app', 'app': a, 'n': n, 'sql_idx': sql_idx,
                         'zero_models': zero})
        elif k == 'mark':
            a = draw(st.sampled_from(st_['apps']))
            labs = [l['label'] for l in st_['labels'][a]]
            pending = [l for l in labs if l not in recorded[a]]
            pool = (pending * 3 + labs) or ['e1']
            mode = draw(st.sampled_from(['labels', 'labels', 'all']))
            if mode == 'all':
                prog.append({'op': 'mark', 'app': a, 'all': True, 'labels': []})
                recorded[a] |= set(labs)
            else:
                ls = draw(st.lists(st.sampled_from(pool), min_size=1, max_size=2, unique=True))
                prog.append({'op': 'mark', 'app': a, 'all': False, 'labels': ls})
                recorded[a] |= set(ls)
        elif k == 'wipe':
            a = draw(st.sampled_from(st_['apps']))
            labs = sorted(recorded[a]) or ['e1']
            ls = draw(st.lists(st.sampled_from(labs), min_size=1, max_size=2, unique=True))
            with_app = draw(st.sampled_from([True, True, False]))
            prog.append({'op': 'wipe', 'app': a if with_app else None, 'labels': ls})
            if with_app:
                recorded[a] -= set(ls)
    # always end with two plain runs (second must be a no-op as far as rows go)
    prog.append({'op': 'run', 'entry': 'api', 'apps': None, 'fault_at': None})
    prog.append({'op': 'run', 'entry': draw(st.sampled_from(['api', 'evolve_cmd'])),
                 'apps': None, 'fault_at': None})
    two = stratum == 'two_dbs'
    if two:
        for op in prog:
            if op['op'] == 'run':
                op['database'] = draw(st.sampled_from(['default', 'other']))
    return {'init': init, 'program': prog, 'two_dbs': two}


def jobs(tier, scale=1.0):
    per = max(1, int((8 if tier == 'quick' else 120) * scale))
    strata = ['long', 'short', 'two_dbs', 'long']
    return [{'kind': 'hyp', 'stratum': strata[i % 4], 'shard': i, 'examples': per}
            for i in range(16)]


def run_job(job, seed, rec, tier):
    from .. import run as RUN
    if job['kind'] == 'replay':
        with open(job['file']) as fh:
            doc = json.load(fh)
        case = doc.get('case', doc)
        rec.record(case, check(case))
        return
    RUN.hyp_job(cases(job['stratum']), check, job['examples'], seed, rec,
                max_seconds=(150 if tier == 'quick' else 3000))


# ---------------------------------------------------------------------------
# execution + oracle

def rows_of(dump):
    return [tuple(r) for r in (dump.get('evolutions') or [])
            if r[0] in APPS]


def executed_labels(trace, apps):
    """(app, label) whose ADD COLUMN statement was executed (not merely part of
    a CREATE TABLE)."""
    out = []
    for t in trace:
        if t[0] != 'sql':
            continue
        s = t[2].strip()
        for app in apps:
            pre = 'ALTER TABLE "%s_book" ADD COLUMN "c_' % app
            if s.startswith(pre):
                out.append((app, s[len(pre):].split('"', 1)[0]))
    return out


def check(case):
    from ..run import sha
    out = {'labels': [], 'atoms': [], 'nontrivial': False, 'evaluations': 0}
    atoms = out['atoms']
    st_ = new_state(case['init'])
    prog = case['program']
    completed_runs = 0
    upgrades_of_installed = 0
    exec_count = {}            # (app,label) -> executions in completed runs since last wipe
    with P.Scratch('c08_') as sc:
        db = sc.sub('db.sqlite3')
        vi = [0]

        def project_dir():
            vi[0] += 1
            d = sc.sub('v%d' % vi[0], 'x')[:-2]
            v = build_version(st_)
            v['two_dbs'] = bool(case.get('two_dbs'))
            P.write_project(d, v)
            return d
        pdir = project_dir()
        dirty = False
        rows = []
        versions = []
        sig_apps = set()
        two = bool(case.get('two_dbs'))
        db_other = sc.sub('other.sqlite3')
        per_alias = {'default': {'rows': [], 'versions': [], 'sig_apps': set(), 'exec': {}},
                     'other': {'rows': [], 'versions': [], 'sig_apps': set(), 'exec': {}}}
        dumps = ['default', 'other'] if two else ['default']
        for i, op in enumerate(prog):
            tag = '%d:%s' % (i, op['op'])
            if op['op'] in ('grow', 'new_model', 'new_app'):
                if op['op'] == 'grow':
                    if op['app'] not in st_['apps'] or not st_['models'][op['app']]:
                        continue
                    grow(st_, op['app'], op['kind'])
                elif op['op'] == 'new_model':
                    if op['app'] not in st_['apps'] or op['model'] in st_['models'][op['app']]:
                        continue
                    st_['models'][op['app']].append(op['model'])
                else:
                    if op['app'] in st_['apps']:
                        continue
                    add_app(st_, op['app'], op['n'], op.get('sql_idx') or [],
                            op.get('zero_models', False))
                dirty = True
                out['labels'].append('op:' + op['op'])
                continue
            if dirty:
                pdir = project_dir()
                dirty = False
            out['evaluations'] += 1
            if op['op'] == 'run':
                targets = [a for a in (op['apps'] or st_['apps']) if a in st_['apps']]
                if not targets:
                    continue
                if op['entry'] == 'api' or op['apps']:
                    step = {'op': 'evolve_api', 'apps': op['apps'] and targets}
                else:
                    step = {'op': 'command', 'name': 'evolve',
                            'kwargs': {'execute': True, 'interactive': False, 'verbosity': 0}}
                if op.get('fault_at'):
                    step['fault_at'] = op['fault_at']
                alias = op.get('database', 'default') if two else 'default'
                step['database'] = alias
                if step['op'] == 'command' and alias != 'default':
                    step['kwargs']['database'] = alias
                pa_ = per_alias[alias]
                rows, versions, sig_apps, exec_count = (pa_['rows'], pa_['versions'],
                                                        pa_['sig_apps'], pa_['exec'])
                res = P.run_driver(pdir, db, {'steps': [step], 'dump': dumps}, db_other=db_other)
                if res.get('driver_error'):
                    atoms.append(['driver_error', res['driver_error'][-300:]])
                    return out
                s = res['steps'][0]
                d = res['dumps'][alias]
                new_rows = rows_of(d)
                new_versions = [v[0] for v in (d.get('versions') or [])]
                if two:
                    out['labels'].append('run_on:' + alias)
                    oth = 'other' if alias == 'default' else 'default'
                    if rows_of(res['dumps'][oth]) != per_alias[oth]['rows']:
                        atoms.append(['run_changed_rows_of_other_database', alias])
                faulted = any(t[0] == 'fault' for t in s['trace'])
                ok = s['ok']
                kind = 'run_%s%s%s' % (op['entry'], '_subset' if op['apps'] else '',
                                       '_fault' if faulted else '')
                out['labels'].append('op:' + kind + (':ok' if ok else ':failed'))
                before = {(r[0], r[1]) for r in rows}
                added = [r for r in new_rows if r not in rows]
                removed = [r for r in rows if r not in new_rows]
                pairs = [(r[0], r[1]) for r in new_rows]
                dup = sorted({p for p in pairs if pairs.count(p) > 1})
                if dup:
                    atoms.append(['duplicate_rows', kind, [list(p) for p in dup]])
                if removed:
                    atoms.append(['rows_removed_by_run', kind])
                ex = executed_labels([t for t in s['trace'] if t[0] != 'sql' or t[1] == alias],
                                     st_['apps'])
                announced = []
                for t in s['trace']:
                    if t[0] == 'signal' and t[1] == 'applying_evolution':
                        for lab in t[2].get('evolutions', []):
                            announced.append((t[2].get('app'), lab))
                fresh_apps = {a for a in targets if a not in sig_apps}
                if not ok:
                    if added:
                        atoms.append(['failed_run_recorded_rows', kind,
                                      'faulted' if faulted else s['exc']['type']])
                else:
                    completed_runs += 1
                    created = [v for v in new_versions if v not in versions]
                    if added:
                        if len(created) != 1:
                            atoms.append(['rows_without_single_new_version', kind, len(created)])
                        elif any(r[2] != created[0] for r in added):
                            atoms.append(['row_attached_to_other_version', kind])
                    want = set()
                    for a in targets:
                        for lab in st_['labels'][a]:
                            if (a, lab['label']) not in before:
                                want.add((a, lab['label']))
                    got = {(r[0], r[1]) for r in added}
                    if got - want:
                        atoms.append(['recorded_unexpected_labels', kind,
                                      sorted(map(list, got - want))[:3]])
                    # (a run that found nothing to do saves no version and records
                    # nothing: e.g. a wiped label whose change is already in the
                    # stored signature stays unrecorded)
                    # (... and that actually ran evolve(): on a brand-new database the
                    # version row can come from Evolver.__init__ alone)
                    evolved = any(t[0] == 'signal' and t[1] == 'evolving' for t in s['trace'])
                    if created and evolved and want - got:
                        atoms.append(['pending_labels_not_recorded', kind,
                                      'fresh' if all(a in fresh_apps for a, _l in want - got)
                                      else 'installed'])
                    for p in ex:
                        exec_count[p] = exec_count.get(p, 0) + 1
                        if exec_count[p] > 1:
                            atoms.append(['label_executed_twice', kind, list(p)])
                        if p not in got:
                            atoms.append(['executed_but_not_recorded_by_this_run', kind, list(p)])
                    if any(p[0] not in fresh_apps for p in ex):
                        upgrades_of_installed += 1
                    for p in announced:
                        if p not in got:
                            atoms.append(['announced_but_not_recorded_by_this_run', kind,
                                          list(p)])
                    for a in targets:
                        sig_apps.add(a)
                for p in ex:
                    if p in before:
                        atoms.append(['recorded_label_executed_again', kind, list(p)])
                    if p[0] in fresh_apps:
                        atoms.append(['fresh_app_evolution_executed', kind, list(p)])
                rows, versions = new_rows, new_versions
                # which apps the stored signature knows (fresh or not next time)
                sc_ = d.get('sig_check') or {}
                if sc_.get('stored_apps') is not None:
                    sig_apps = {a for a in sc_['stored_apps'] if a in APPS}
                pa_.update({'rows': rows, 'versions': versions, 'sig_apps': sig_apps})
            elif op['op'] in ('mark', 'wipe'):
                app = op.get('app')
                if app is not None and app not in st_['apps']:
                    continue
                if not per_alias['default']['versions']:
                    continue        # (the commands need an installed database)
                if op['op'] == 'mark':
                    args = list(op['labels'])
                    kw = {'app_label': app, 'interactive': False}
                    if op.get('all'):
                        kw['apply_all'] = True
                        args = []
                    step = {'op': 'command', 'name': 'mark-evolution-applied', 'args': args,
                            'kwargs': kw}
                else:
                    kw = {'interactive': False}
                    if app:
                        kw['app_label'] = app
                    step = {'op': 'command', 'name': 'wipe-evolution', 'args': list(op['labels']),
                            'kwargs': kw}
                pa_ = per_alias['default']
                rows, versions, exec_count = pa_['rows'], pa_['versions'], pa_['exec']
                res = P.run_driver(pdir, db, {'steps': [step], 'dump': dumps}, db_other=db_other)
                if res.get('driver_error'):
                    atoms.append(['driver_error', res['driver_error'][-300:]])
                    return out
                s = res['steps'][0]
                d = res['dumps']['default']
                new_rows = rows_of(d)
                if two and rows_of(res['dumps']['other']) != per_alias['other']['rows']:
                    atoms.append(['command_changed_rows_of_other_database', op['op']])
                ok = s['ok']
                out['labels'].append('op:%s:%s' % (op['op'], 'ok' if ok else 'refused'))
                if not ok and not s['exc']['is_command_error']:
                    atoms.append(['command_crashed', op['op'], s['exc']['type']])
                added = [r for r in new_rows if r not in rows]
                removed = [r for r in rows if r not in new_rows]
                pairs = [(r[0], r[1]) for r in new_rows]
                dup = sorted({p for p in pairs if pairs.count(p) > 1})
                if dup:
                    atoms.append(['duplicate_rows', op['op'], [list(p) for p in dup]])
                if not ok:
                    if added or removed:
                        atoms.append(['refused_command_changed_rows', op['op']])
                elif op['op'] == 'mark':
                    labs = [l['label'] for l in st_['labels'][app]] if op.get('all') \
                        else op['labels']
                    want = {(app, l) for l in labs}
                    if {(r[0], r[1]) for r in added} != want or removed:
                        atoms.append(['mark_changed_other_rows', sorted(map(list, want)),
                                      [list(r) for r in added]])
                    cur = max(versions) if versions else None
                    if any(r[2] != cur for r in added):
                        atoms.append(['mark_attached_to_other_version'])
                else:
                    want = set()
                    for l in op['labels']:
                        for r in rows:
                            if r[1] == l and (app is None or r[0] == app):
                                want.add(r)
                    if set(removed) != want or added:
                        atoms.append(['wipe_changed_other_rows', [list(r) for r in sorted(want)],
                                      [list(r) for r in removed]])
                    for r in removed:
                        exec_count.pop((r[0], r[1]), None)
                if ex_changes(s['trace'], st_['apps']):
                    atoms.append(['command_changed_schema', op['op']])
                rows = new_rows
                pa_['rows'] = rows
    out['nontrivial'] = completed_runs >= 2 and upgrades_of_installed >= 1
    out['nontrivial_keys'] = [sha(case)]
    out['sample'] = {'init': case['init'],
                     'program': [compact_op(o) for o in prog]}
    return out


def ex_changes(trace, apps):
    for t in trace:
        if t[0] == 'sql':
            u = t[2].lstrip().upper()
            if u.startswith(('ALTER', 'CREATE', 'DROP')):
                return True
    return False


def compact_op(o):
    if o['op'] == 'run':
        return 'run(%s%s%s%s)' % (o['entry'], ',apps=%s' % o['apps'] if o['apps'] else '',
                                  ',fault@%s' % o['fault_at'] if o.get('fault_at') else '',
                                  ',db=%s' % o['database'] if o.get('database') else '')
    if o['op'] == 'grow':
        return 'grow(%s,%s)' % (o['app'], o['kind'])
    if o['op'] == 'new_model':
        return 'new_model(%s.%s)' % (o['app'], o['model'])
    if o['op'] == 'new_app':
        return 'new_app(%s,n=%d,sql=%s%s)' % (o['app'], o['n'], o.get('sql_idx'),
                                           ',no models' if o.get('zero_models') else '')
    if o['op'] == 'mark':
        return 'mark(%s,%s)' % (o['app'], 'all' if o.get('all') else o['labels'])
    return 'wipe(%s,%s)' % (o['app'], o['labels'])


def atom_bucket(atom):
    if len(atom) > 1 and isinstance(atom[1], str):
        return '%s:%s' % (atom[0], atom[1])
    return atom[0]


def candidates(case):
    prog = case['program']
    for i in reversed(range(len(prog))):
        c = copy.deepcopy(case)
        del c['program'][i]
        yield c
    for i, op in enumerate(prog):
        if op['op'] == 'run' and (op.get('apps') or op['entry'] != 'api'):
            c = copy.deepcopy(case)
            c['program'][i]['apps'] = None
            c['program'][i]['entry'] = 'api'
            yield c
        if op['op'] in ('mark', 'wipe') and len(op['labels']) > 1:
            for j in range(len(op['labels'])):
                c = copy.deepcopy(case)
                del c['program'][i]['labels'][j]
                yield c
        if op['op'] == 'new_app' and op['n'] > 0:
            c = copy.deepcopy(case)
            c['program'][i]['n'] -= 1
            yield c
    for app in list(case['init']['apps']):
        if case['init']['apps'][app] > 0:
            c = copy.deepcopy(case)
            c['init']['apps'][app] -= 1
            yield c
        if app != 'pa':
            c = copy.deepcopy(case)
            del c['init']['apps'][app]
            yield c
