"""C09 - execution order respects every evolution/migration dependency."""
import copy
import itertools
import json

from hypothesis import strategies as st

from .. import project as P
from .. import specs as S
from .. import mutgen

ID = 'C09'
LEVEL = 'exploration'
RULE = ('Two layers. (1) Ordering core: EVERY directed graph without self-loops on 1..4 nodes '
        '(quick; plus a VERIF_SEED-strided 1/16 of the 2^20 graphs on 5 nodes) or on 1..5 nodes '
        '(thorough, exhaustive) is loaded into DependencyGraph (dependencies registered before '
        'or after their nodes, alternating) and get_ordered() is compared with the definition: '
        'acyclic => a permutation of all nodes in which every node follows all its '
        'dependencies; cyclic => an error is raised. (2) In situ: generated projects of 2-5 '
        'apps, each with 0-3 pending evolutions, an already applied prefix, possibly new models '
        'or entirely new, one optional migrations-only app with a chain of 1-3 migrations (a '
        'prefix applied), and AFTER_/BEFORE_ EVOLUTIONS/MIGRATIONS requirements at evolution '
        'and app level drawn consistent with a hidden total order (stratum "cyclic": one '
        'requirement reversed to close a cycle among pending units). The upgrade runs in a '
        'fresh interpreter; the order of creating_models / applying_evolution / '
        'applying_migration signals is checked against every requirement both of whose ends '
        'are pending, every pending unit must be announced exactly once, and a cyclic '
        'configuration must be refused with an error and no change. Stratum "handover" (the '
        'C10 generator with a migrations-only neighbour): the evolution that holds '
        'MoveToDjangoMigrations also declares AFTER_MIGRATIONS on the neighbour\'s pending '
        'migration; that migration must be announced before the evolution whenever both run '
        '(non-trivial there = both were announced). evaluations = graphs + '
        'projects; non-trivial = graph with >=2 edges / project with >=2 requirements in force '
        'between pending units; distinct = the graph / SHA-1 of the project.')
ASSUMPTIONS = [
    'signals announce units in execution order (C17 checks signals against statements)',
    'every generated evolution adds one nullable column, so evolutions never conflict',
]
MIN_EVALUATIONS = {'quick': 5000, 'thorough': 1000000}
SHRINK_CHECKS = 25
EXHAUSTIVE = {'quick': False, 'thorough': False}


# ---------------------------------------------------------------------------
# layer 1: the ordering core

def edges_of(n, code):
    pairs = [(i, j) for i in range(n) for j in range(n) if i != j]
    return [p for k, p in enumerate(pairs) if code >> k & 1]


def is_cyclic(n, edges):
    deps = {i: set() for i in range(n)}
    for a, b in edges:
        deps[a].add(b)
    done, left = set(), set(range(n))
    while left:
        ready = [i for i in left if deps[i] <= done]
        if not ready:
            return True
        done |= set(ready)
        left -= set(ready)
    return False


def check_graph(n, code, deps_first):
    from .. import env
    env.setup()
    from django_evolution.utils.graph import DependencyGraph
    edges = edges_of(n, code)
    g = DependencyGraph()
    keys = ['n%d' % i for i in range(n)]
    if deps_first:
        for a, b in edges:
            g.add_dependency(keys[a], keys[b])
    for k in keys:
        g.add_node(k)
    if not deps_first:
        for a, b in edges:
            g.add_dependency(keys[a], keys[b])
    cyclic = is_cyclic(n, edges)
    atoms = []
    try:
        g.finalize()
        order = [x.key for x in g.get_ordered()]
    except AssertionError as e:
        return [['graph_assertion', 'cyclic' if cyclic else 'acyclic', str(e)[:80]]]
    except Exception as e:
        if cyclic:
            return []
        return [['graph_error_on_acyclic', type(e).__name__]]
    if cyclic:
        ok = sorted(order) == sorted(keys) and \
            all(order.index(keys[b]) < order.index(keys[a]) for a, b in edges)
        assert not ok
        atoms.append(['cycle_not_reported',
                      'nodes_dropped' if sorted(order) != sorted(keys) else 'order_breaks_edge'])
        return atoms
    if sorted(order) != sorted(keys):
        atoms.append(['not_a_permutation', len(order), n])
        return atoms
    for a, b in edges:
        if order.index(keys[b]) > order.index(keys[a]):
            atoms.append(['dependency_after_dependent'])
            break
    return atoms


# ---------------------------------------------------------------------------
# layer 2: generated projects

APPS = ['pa', 'pb', 'pc', 'pd', 'pe']
MIG_APP = 'pm'


def unit_key(u):
    return '%s:%s:%s' % tuple(u)


@st.composite
def cases(draw, stratum):
    n_apps = draw(st.integers(2, 5 if stratum != 'small' else 3))
    apps = {}
    for a in APPS[:n_apps]:
        k = draw(st.integers(0, 3))
        state = draw(st.sampled_from(['installed', 'installed', 'installed', 'new']))
        applied = draw(st.integers(0, k)) if state == 'installed' else 0
        apps[a] = {'labels': k, 'applied': applied, 'state': state,
                   'new_model': state == 'installed' and draw(st.integers(0, 3)) == 0}
    mig = None
    if draw(st.booleans()):
        n = draw(st.integers(1, 3))
        mig = {'n': n, 'applied': draw(st.integers(1, n)), 'state': 'installed'}
        if draw(st.integers(0, 3)) == 0:
            mig = {'n': n, 'applied': 0, 'state': 'new'}
    case = {'apps': apps, 'mig': mig, 'reqs': []}
    pend = pending_units(case, True)
    everything = all_units(case)
    # a hidden total order over the pending units, consistent with the built-in
    # requirements (sequence order inside an app): shuffle apps' chains together
    chains = {}
    for u in pend:
        chains.setdefault(u[1], []).append(u)
    order = []
    chains = {k: list(v) for k, v in chains.items()}
    while any(chains.values()):
        a = draw(st.sampled_from(sorted(k for k, v in chains.items() if v)))
        order.append(chains[a].pop(0))
    pos = {unit_key(u): i for i, u in enumerate(order)}
    evos = [u for u in everything if u[0] == 'evo']
    pend_evos = [u for u in pend if u[0] == 'evo']
    n_req = draw(st.integers(1, 7))
    reqs = []
    for _ in range(n_req):
        if not pend_evos:
            break
        level = draw(st.sampled_from(['evolution', 'evolution', 'app']))
        owner = draw(st.sampled_from(pend_evos))
        # target: an evolution (pending or applied), a whole app, or a migration
        tkind = draw(st.sampled_from(['evo', 'evo', 'app', 'mig'] if mig else ['evo', 'evo', 'app']))
        if tkind == 'evo':
            cands = [u for u in evos if u[1] != owner[1]]
            live = [u for u in pend_evos if u[1] != owner[1]]
            cands = cands + live * 3
            if not cands:
                continue
            target = draw(st.sampled_from(cands))
        elif tkind == 'app':
            cands = [a for a in apps if a != owner[1]]
            if not cands:
                continue
            target = ['app', draw(st.sampled_from(cands)), '']
        else:
            target = ['mig', MIG_APP, '%04d_m' % draw(st.integers(1, mig['n']))]
        reqs.append({'level': level, 'owner': list(owner), 'target': list(target), 'dir': None})
    # direction consistent with the hidden order
    case['reqs'] = reqs
    for r in reqs:
        first, last = span_of(case, r, 'owner'), span_of(case, r, 'target')
        fo = [pos[unit_key(u)] for u in first if unit_key(u) in pos]
        la = [pos[unit_key(u)] for u in last if unit_key(u) in pos]
        if not fo or not la:
            r['dir'] = draw(st.sampled_from(['after', 'before']))    # an applied end: ignored
        elif max(la) < min(fo):
            r['dir'] = 'after'
        elif max(fo) < min(la):
            r['dir'] = 'before'
        else:
            r['dir'] = None
    case['reqs'] = [r for r in reqs if r['dir']]
    if stratum == 'cyclic':
        # reverse one requirement in force whose ends are both single pending
        # evolutions ordered by the rest (closing a cycle with the app chains)
        live = [r for r in case['reqs'] if r['target'][0] == 'evo' and r['level'] == 'evolution'
                and unit_key(r['target']) in pos]
        if live:
            r = draw(st.sampled_from(live))
            twin = copy.deepcopy(r)
            twin['dir'] = 'before' if r['dir'] == 'after' else 'after'
            case['reqs'].append(twin)
            case['expect_cycle'] = True
    case['entry'] = draw(st.sampled_from(['api', 'evolve_cmd']))
    return case


def all_units(case):
    out = []
    for a, info in case['apps'].items():
        if info['state'] == 'new':
            out.append(['create', a, 'Book'])
        elif info.get('new_model'):
            out.append(['create', a, 'Tag'])
        for i in range(info['labels']):
            out.append(['evo', a, 'e%d' % (i + 1)])
    if case.get('mig'):
        for i in range(case['mig']['n']):
            out.append(['mig', MIG_APP, '%04d_m' % (i + 1)])
    return out


def pending_units(case, with_recorded=False):
    """Units executed by the run; with_recorded: plus the evolutions of new apps,
    which are only recorded but take part in the ordering as graph nodes."""
    out = []
    for a, info in case['apps'].items():
        if info['state'] == 'new':
            out.append(['create', a, 'Book'])
            if with_recorded:
                for i in range(info['labels']):
                    out.append(['evo', a, 'e%d' % (i + 1)])
            continue            # a new app's evolutions are only recorded
        if info.get('new_model'):
            out.append(['create', a, 'Tag'])
        for i in range(info['applied'], info['labels']):
            out.append(['evo', a, 'e%d' % (i + 1)])
    m = case.get('mig')
    if m:
        for i in range(m['applied'] if m['state'] == 'installed' else 0, m['n']):
            out.append(['mig', MIG_APP, '%04d_m' % (i + 1)])
    return out


def span_of(case, req, end):
    """The units an end of a requirement stands for."""
    u = req[end]
    if end == 'owner':
        if req['level'] == 'app':
            return [x for x in all_units(case) if x[1] == u[1]]
        return [u]
    if u[0] == 'app':
        return [x for x in all_units(case) if x[1] == u[1]]
    return [u]


def build_versions(case):
    """(v0, v1): v0 = what is installed before the run, v1 = the target."""
    def version(applied_only):
        spec = S.new_project()
        apps, evolutions, deps, migrations = [], {}, {}, {}
        for a, info in case['apps'].items():
            if applied_only and info['state'] == 'new':
                continue
            apps.append(a)
            n = info['applied'] if applied_only else info['labels']
            fields = [S.new_field('a', 'Integer', null=True)]
            evos = []
            for i in range(n):
                lab = 'e%d' % (i + 1)
                f = S.new_field('c_' + lab, 'Integer', null=True)
                fields.append(f)
                f2 = copy.deepcopy(f)
                f2['uid'] = '%s.Book.c_%s' % (a, lab)
                evos.append({'label': lab, 'mutations': [
                    {'kind': 'AddField', 'app': a, 'model': 'Book', 'field': f2,
                     'initial': None}]})
            S.add_model(spec, a, S.new_model('Book', fields))
            if info.get('new_model') and not applied_only:
                S.add_model(spec, a, S.new_model('Tag', [S.new_field('a', 'Integer', null=True)]))
            evolutions[a] = evos
            if not applied_only:
                d = {'per_evolution': {}}
                for r in case['reqs']:
                    if r['owner'][1] != a:
                        continue
                    t = r['target']
                    if t[0] == 'mig':
                        key = 'AFTER_MIGRATIONS' if r['dir'] == 'after' else 'BEFORE_MIGRATIONS'
                        val = [t[1], t[2]]
                    else:
                        key = 'AFTER_EVOLUTIONS' if r['dir'] == 'after' else 'BEFORE_EVOLUTIONS'
                        val = t[1] if t[0] == 'app' else [t[1], t[2]]
                    if r['level'] == 'app':
                        d.setdefault(key, [])
                        if val not in d[key]:
                            d[key].append(val)
                    else:
                        pe = d['per_evolution'].setdefault(r['owner'][2], {})
                        pe.setdefault(key, [])
                        if val not in pe[key]:
                            pe[key].append(val)
                deps[a] = d
        m = case.get('mig')
        if m and not (applied_only and m['state'] == 'new'):
            apps.append(MIG_APP)
            n = m['applied'] if applied_only else m['n']
            n = max(n, 1) if applied_only else n
            fields = [S.new_field('a', 'Integer', null=True)]
            migs = []
            for i in range(n):
                name = '%04d_m' % (i + 1)
                if i == 0:
                    ops = [{'op': 'CreateModel', 'app': MIG_APP, 'spec': S.new_model(
                        'Book', [S.new_field('a', 'Integer', null=True)])}]
                else:
                    f = S.new_field('m%d' % i, 'Integer', null=True)
                    fields.append(f)
                    ops = [{'op': 'AddField', 'model': 'Book', 'field': f}]
                migs.append({'name': name, 'initial': i == 0,
                             'dependencies': [[MIG_APP, '%04d_m' % i]] if i else [],
                             'operations': ops})
            S.add_model(spec, MIG_APP, S.new_model('Book', fields))
            migrations[MIG_APP] = migs
        spec = mutgen.ensure_uids(spec)
        return {'apps': apps, 'spec': spec, 'evolutions': evolutions, 'deps': deps,
                'migrations': migrations}
    return version(True), version(False)


def requirements_in_force(case, with_recorded=False):
    """(before_unit, after_unit, why) pairs over pending units."""
    pend = pending_units(case, with_recorded)
    keys = {unit_key(u) for u in pend}
    out = []
    per_app = {}
    for u in pend:
        per_app.setdefault(u[1], []).append(u)
    for a, us in per_app.items():
        for x, y in zip(us, us[1:]):
            out.append((x, y, 'sequence'))
    for r in case['reqs']:
        own = [u for u in span_of(case, r, 'owner') if unit_key(u) in keys]
        tgt = [u for u in span_of(case, r, 'target') if unit_key(u) in keys]
        for o in own:
            for t in tgt:
                if r['dir'] == 'after':
                    out.append((t, o, 'declared'))
                else:
                    out.append((o, t, 'declared'))
    return out


def graph_units(keys):
    """Graph node keys -> units (anchors dropped)."""
    out = []
    for k in keys:
        parts = k.split(':')
        if parts[0] == 'evolution':
            if parts[2] in ('__first__', '__last__'):
                continue
            out.append(['evo', parts[1], parts[2]])
        elif parts[0] == 'create-model':
            out.append(['create', parts[1], {'book': 'Book', 'tag': 'Tag'}.get(parts[2], parts[2])])
        elif parts[0] == 'migration':
            out.append(['mig', parts[1], parts[2]])
    return out


def regroup(units):
    """What the batch consolidation documents: maximal runs of non-migration
    units form one batch; in a batch all models are created first, then each
    app's evolutions run together, apps in order of first appearance."""
    out, run = [], []

    def flush():
        creates = [u for u in run if u[0] == 'create']
        apps = []
        for u in run:
            if u[0] == 'evo' and u[1] not in apps:
                apps.append(u[1])
        out.extend(creates)
        for a in apps:
            out.extend(u for u in run if u[0] == 'evo' and u[1] == a)
        del run[:]
    for u in units:
        if u[0] == 'mig':
            flush()
            out.append(u)
        else:
            run.append(u)
    flush()
    return out


def announced_units(trace):
    """Units in execution order.  Model creations and migrations are taken from
    their signals; evolutions from their statements (the ADD COLUMN of the
    label's column, or the table rebuild in which the column first appears),
    because one applying_evolution signal names all of a task's labels even when
    the task is split over several batches."""
    import re
    out = []
    known = {}
    sql = [t for t in trace if t[0] == 'sql']
    idx = {id(t): i for i, t in enumerate(sql)}
    for t in trace:
        if t[0] == 'signal':
            if t[1] == 'creating_models':
                for mn in t[2].get('model_names', []):
                    out.append(['create', t[2].get('app'), mn])
            elif t[1] == 'applying_migration':
                out.append(['mig'] + list(t[2].get('migration')))
            continue
        if t[0] != 'sql':
            continue
        s_ = t[2].strip()
        m = re.match(r'ALTER TABLE "(p[a-e])_book" ADD COLUMN "c_(e\d+)"', s_)
        if m:
            out.append(['evo', m.group(1), m.group(2)])
            known.setdefault(m.group(1), set()).add(m.group(2))
            continue
        if s_.startswith('CREATE TABLE "TEMP_TABLE"'):
            target = None
            for t2 in sql[idx[id(t)] + 1:]:
                m2 = re.match(r'ALTER TABLE "TEMP_TABLE" RENAME TO "(p[a-e])_book"', t2[2].strip())
                if m2:
                    target = m2.group(1)
                    break
                if t2[2].strip().startswith('CREATE TABLE "TEMP_TABLE"'):
                    break
            if target:
                labs = re.findall(r'"c_(e\d+)"', s_)
                for lab in labs:
                    if lab not in known.setdefault(target, set()) and \
                            lab not in KNOWN_BEFORE.get(target, ()):
                        out.append(['evo', target, lab])
                        known[target].add(lab)
    return out


KNOWN_BEFORE = {}


def check_project(case):
    from ..run import sha
    from . import c04
    out = {'labels': ['entry:' + case.get('entry', 'api')], 'atoms': [], 'nontrivial': False}
    atoms = out['atoms']
    v0, v1 = build_versions(case)
    pend = pending_units(case)
    reqs = requirements_in_force(case)
    declared = [r for r in reqs if r[2] == 'declared']
    out['labels'].append('pending_units:%d' % min(len(pend), 8))
    out['labels'].append('declared_in_force:%d' % min(len(declared), 6))
    for r in case['reqs']:
        out['labels'].append('req:%s:%s:%s' % (r['level'], r['dir'], r['target'][0]))
    if case.get('mig'):
        out['labels'].append('with_migrations_app')
    cyc = cyclic_requirements(pending_units(case, True), requirements_in_force(case, True))
    if cyc:
        out['labels'].append('cyclic')
    with P.Scratch('c09_') as sc:
        d0 = sc.sub('v0', 'x')[:-2]
        d1 = sc.sub('v1', 'x')[:-2]
        P.write_project(d0, v0)
        P.write_project(d1, v1)
        db = sc.sub('db.sqlite3')
        inst = P.run_driver(d0, db, {'steps': [c04.upgrade_step('api')], 'dump': ['default']})
        if c04.run_failed('install', inst, []):
            out['rejected'] = 'install_failed'
            out['error'] = str(inst.get('driver_error') or
                               [s_.get('exc') for s_ in inst['steps']])[:400]
            return out
        step = c04.upgrade_step(case.get('entry', 'api'))
        step['capture_graph'] = True
        run = P.run_driver(d1, db, {'steps': [step], 'dump': ['default']})
        if run.get('driver_error'):
            atoms.append(['driver_error', run['driver_error'][-300:]])
            return out
        s = run['steps'][0]
        KNOWN_BEFORE.clear()
        for a, info in case['apps'].items():
            KNOWN_BEFORE[a] = {'e%d' % (i + 1) for i in range(info['applied'])}
        ann = announced_units(s['trace'])
        if cyc:
            if s['ok']:
                atoms.append(['cyclic_requirements_not_reported'])
            else:
                e = s['exc']
                if not (e['is_evolution_exception'] or e['is_command_error']):
                    atoms.append(['cyclic_requirements_crash', e['type']])
                changed = [t for t in s['trace'] if t[0] == 'sql' and t[2].lstrip().upper()
                           .startswith(('ALTER', 'CREATE', 'DROP'))]
                if changed:
                    atoms.append(['cyclic_requirements_error_after_changes'])
        elif not any(t[0] == 'signal' and t[1] == 'evolving' for t in s['trace']) and s['ok']:
            # nothing was required (e.g. only migrations of a migrations-only app
            # are pending): no execution, no order to judge
            out['labels'].append('run_not_required')
        else:
            if not s['ok']:
                e = s['exc']
                atoms.append(['run_failed', e['type'], e.get('where'), e['msg'][:120]])
            else:
                graphs = [t[1] for t in s['trace'] if t[0] == 'graph']
                gorder = graph_units(graphs[-1]) if graphs else None
                if gorder is None:
                    atoms.append(['no_graph_order_observed'])
                else:
                    # (1) the graph's order against every requirement in force
                    gk = [unit_key(u) for u in gorder]
                    gwant = [unit_key(u) for u in pending_units(case, True)]
                    for k in sorted(set(gwant)):
                        if gk.count(k) != 1:
                            atoms.append(['graph_unit_%s' % ('twice' if gk.count(k) > 1
                                                             else 'missing'), k.split(':')[0]])
                    for x, y, why in requirements_in_force(case, True):
                        kx, ky = unit_key(x), unit_key(y)
                        if kx in gk and ky in gk and gk.index(kx) > gk.index(ky):
                            atoms.append(['graph_order_breaks_requirement', why,
                                          '%s>%s' % (x[0], y[0])])
                    # (2) execution against the batched graph order
                    executed = {unit_key(u) for u in pend}
                    expect = [unit_key(u) for u in regroup(gorder) if unit_key(u) in executed]
                    got = [unit_key(u) for u in ann]
                    if expect != got:
                        atoms.append(['execution_differs_from_batched_graph_order',
                                      expect[:8], got[:8]])
                keys = [unit_key(u) for u in ann]
                want = [unit_key(u) for u in pend]
                for k in sorted(set(want)):
                    c = keys.count(k)
                    if c != 1:
                        atoms.append(['unit_announced_%s' % ('twice' if c > 1 else 'never'),
                                      k.split(':')[0]])
                extra = sorted(set(keys) - set(want))
                if extra:
                    atoms.append(['unexpected_unit', extra[0].split(':')[0], extra[:3]])
                for x, y, why in reqs:
                    kx, ky = unit_key(x), unit_key(y)
                    if kx in keys and ky in keys and keys.index(kx) > keys.index(ky):
                        between = keys[keys.index(ky):keys.index(kx)]
                        atoms.append(['requirement_broken', why, '%s>%s' % (x[0], y[0]),
                                      'across_migrations' if any(k.startswith('mig:')
                                                                 for k in between)
                                      else 'same_batch'])
    out['nontrivial'] = len(declared) >= 2
    out['nontrivial_keys'] = [sha(case)]
    out['sample'] = {'apps': case['apps'], 'mig': case.get('mig'),
                     'reqs': ['%s %s %s %s' % (unit_key(r['owner']) if r['level'] == 'evolution'
                                               else r['owner'][1], r['dir'],
                                               unit_key(r['target']), r['level'])
                              for r in case['reqs']],
                     'announced': [unit_key(u) for u in ann][:12]}
    return out


def cyclic_requirements(pend, reqs):
    keys = [unit_key(u) for u in pend]
    deps = {k: set() for k in keys}
    for x, y, _w in reqs:
        deps[unit_key(y)].add(unit_key(x))
    done, left = set(), set(keys)
    while left:
        ready = [k for k in left if deps[k] <= done]
        if not ready:
            return True
        done |= set(ready)
        left -= set(ready)
    return False


# ---------------------------------------------------------------------------

def jobs(tier, scale=1.0):
    out = []
    for i in range(8):
        out.append({'kind': 'graphs', 'shard': i, 'of': 8, 'tier': tier})
    per = max(1, int((10 if tier == 'quick' else 150) * scale))
    strata = ['main', 'small', 'main', 'cyclic']
    for i in range(16):
        out.append({'kind': 'hyp', 'stratum': strata[i % 4], 'shard': i, 'examples': per})
    # hand-over stratum: the C10 generator with a migrations-only neighbour whose migration the
    # hand-over evolution declares itself AFTER (a declared requirement next to the one that
    # MoveToDjangoMigrations generates)
    for i in range(2):
        out.append({'kind': 'hyp', 'stratum': 'handover', 'shard': 16 + i,
                    'examples': max(1, per // 2)})
    return out


def run_job(job, seed, rec, tier):
    from .. import run as RUN
    if job['kind'] == 'replay':
        with open(job['file']) as fh:
            doc = json.load(fh)
        case = doc.get('case', doc)
        rec.record(case, check(case))
        return
    if job['kind'] == 'graphs':
        from .. import env
        env.setup()
        k = 0
        for n in range(1, 6):
            total = 1 << (n * (n - 1))
            stride = 1
            off = 0
            if n == 5 and tier == 'quick':
                stride, off = 16, seed % 16
            for code in range(total):
                k += 1
                if k % job['of'] != job['shard']:
                    continue
                if stride > 1 and (code // job['of']) % stride != off:
                    continue
                case = {'graph': [n, code, bool(code & 1) ^ bool(n & 1)]}
                rec.record(case, check(case))
        return
    if job['stratum'] == 'handover':
        from . import c10
        strat = c10.cases('evolving').map(
            lambda c: {'handover': dict(c, mig_neighbour=True, declared_after=True)})
        RUN.hyp_job(strat, check, job['examples'], seed, rec,
                    max_seconds=(150 if tier == 'quick' else 3000))
        return
    RUN.hyp_job(cases(job['stratum']), check, job['examples'], seed, rec,
                max_seconds=(150 if tier == 'quick' else 3000))


def check(case):
    if 'graph' in case:
        n, code, deps_first = case['graph']
        edges = edges_of(n, code)
        atoms = check_graph(n, code, deps_first)
        cyc = is_cyclic(n, edges)
        return {'labels': ['graph:n=%d' % n, 'graph:cyclic' if cyc else 'graph:acyclic'],
                'atoms': atoms, 'nontrivial': len(edges) >= 2,
                'nontrivial_keys': ['g%d:%d' % (n, code)],
                'sample': {'n': n, 'edges': edges} if code % 9973 == 0 else None}
    if 'handover' in case:
        return check_handover(case['handover'])
    return check_project(case)


def check_handover(c10case):
    """C10's harness, judged for C09 only: the declared AFTER_MIGRATIONS of the hand-over
    evolution must hold whenever both units are announced in the run."""
    from ..run import sha
    from . import c10
    r = c10.check(c10case)
    keep = [a for a in r.get('atoms', []) if a[0] == 'declared_after_migration_broken']
    inforce = 'handover_requirement_in_force' in r.get('labels', [])
    return {'labels': ['handover'] + [l for l in r.get('labels', []) if l.startswith('handover_')],
            'atoms': [['requirement_broken', 'declared', 'handover_evo>mig', a[1]] for a in keep],
            'nontrivial': inforce, 'nontrivial_keys': [sha(c10case)],
            'rejected': r.get('rejected'),
            'sample': {'handover': {k: c10case[k] for k in ('k', 'm', 'p', 'start', 'entry')}}}


def atom_bucket(atom):
    if atom[0] == 'requirement_broken':
        return ':'.join(atom)
    if len(atom) > 1 and isinstance(atom[1], str):
        return '%s:%s' % (atom[0], atom[1])
    return atom[0]


def candidates(case):
    if 'graph' in case:
        n, code, df = case['graph']
        bits = n * (n - 1)
        for k in range(bits):
            if code >> k & 1:
                yield {'graph': [n, code & ~(1 << k), df]}
        return
    if 'handover' in case:
        h = case['handover']
        for key in ('evo_neighbour', 'split_move', 'default_arg'):
            if h.get(key):
                yield {'handover': dict(h, **{key: False})}
        return
    for i in reversed(range(len(case['reqs']))):
        c = copy.deepcopy(case)
        del c['reqs'][i]
        yield c
    for a in list(case['apps']):
        if len(case['apps']) > 1:
            c = copy.deepcopy(case)
            del c['apps'][a]
            c['reqs'] = [r for r in c['reqs'] if r['owner'][1] != a and r['target'][1] != a]
            yield c
    if case.get('mig'):
        c = copy.deepcopy(case)
        c['mig'] = None
        c['reqs'] = [r for r in c['reqs'] if r['target'][0] != 'mig']
        yield c
    for a, info in case['apps'].items():
        if info['labels'] > info['applied'] and info['labels'] > 0:
            c = copy.deepcopy(case)
            c['apps'][a]['labels'] -= 1
            gone = 'e%d' % info['labels']
            c['reqs'] = [r for r in c['reqs']
                         if not ((r['owner'][1] == a and r['owner'][2] == gone) or
                                 (r['target'][1] == a and r['target'][2] == gone))]
            yield c
        if info.get('new_model'):
            c = copy.deepcopy(case)
            c['apps'][a]['new_model'] = False
            yield c
