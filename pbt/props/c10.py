"""C10 - handing an app over to Django migrations is clean and one-way."""
import copy
import json

from hypothesis import strategies as st

from .. import project as P
from .. import specs as S
from .. import mutgen
from . import c04

ID = 'C10'
LEVEL = 'exploration'
RULE = ('Generated hand-overs: app pa with k in 0..3 evolutions (each adds a column) followed by '
        'an evolution holding MoveToDjangoMigrations(mark_applied = the first p of m migrations, '
        '0<=p<=m<=4; the default argument when p=1), a chain 0001_initial..000m of migrations '
        '(0001 creates the model as it is at hand-over, each later one adds a column; the '
        'columns of the marked ones already exist in the evolution-era model), x start state '
        '{fresh database; database with the first j<=k evolutions applied; database already '
        'handed over with q<m migrations}, x neighbours {none; an evolution-only app with a '
        'pending evolution; a migrations-only app with a pending migration; both} (with the migrations-only neighbour the hand-over evolution may also declare AFTER_MIGRATIONS on its pending migration, which must then run first), x entry '
        '{Evolver API, evolve --execute, migrate}. After the run: django_migrations holds each '
        'of the app\'s m migrations exactly once; the marked migrations were not executed and '
        'the others were, once each, in chain order, after every pending evolution of the app; '
        'django_evolution holds every label exactly once; the stored signature says '
        '"migrations" and lists exactly the recorded migrations. Then a second run must change '
        'nothing, and a third run on a project whose model gained a field without a migration '
        'must neither hint nor execute anything for the app. Non-trivial: start state is not '
        'fresh and at least one migration is executed and one only recorded; distinct = SHA-1 '
        'of the case.')
ASSUMPTIONS = [
    'executed migrations are observed through applying_migration signals and their ADD COLUMN / '
    'CREATE TABLE statements; SQLite',
]
MIN_EVALUATIONS = {'quick': 40, 'thorough': 1500}
SHRINK_CHECKS = 20


@st.composite
def cases(draw, stratum):
    k = draw(st.integers(0, 3))
    m = draw(st.integers(1, 4))
    # p = 0: mark_applied=[] ("none of the migrations is covered: run them all"; the initial
    # one is then soft-applied by Django because its table exists)
    p = draw(st.integers(0, m))
    if stratum == 'fresh':
        start = ['fresh']
    elif stratum == 'migrated':
        if m < 2:
            m = draw(st.integers(2, 4))
            p = draw(st.integers(1, m - 1))
        p = min(p, m - 1)
        start = ['mig', draw(st.integers(max(p, 1), m - 1))]
    else:
        start = ['evo', draw(st.integers(0, k))]
    pre = 0
    if start[0] == 'evo' and p >= 1 and draw(st.integers(0, 3)) == 0:
        # some of the marked migrations are already in django_migrations (e.g. someone ran
        # 'migrate <app> --fake' earlier)
        pre = draw(st.integers(1, p))
    return {'k': k, 'm': m, 'p': p, 'start': start, 'pre_recorded': pre,
            'default_arg': p == 1 and draw(st.booleans()),
            'evo_neighbour': draw(st.booleans()), 'mig_neighbour': draw(st.booleans()),
            'entry': draw(st.sampled_from(['api', 'evolve_cmd', 'migrate_cmd'])),
            'split_move': draw(st.booleans()),
            # the evolution that holds the hand-over also declares AFTER_MIGRATIONS on the
            # neighbour's pending migration (only meaningful with mig_neighbour); drawn last
            # so that all earlier draws of a seed are unchanged
            'declared_after': draw(st.booleans())}


def jobs(tier, scale=1.0):
    per = max(1, int((8 if tier == 'quick' else 100) * scale))
    strata = ['evolving', 'evolving', 'fresh', 'migrated']
    return [{'kind': 'hyp', 'stratum': strata[i % 4], 'shard': i, 'examples': per}
            for i in range(16)]


def run_job(job, seed, rec, tier):
    from .. import run as RUN
    if job['kind'] == 'replay':
        with open(job['file']) as fh:
            doc = json.load(fh)
        case = doc.get('case', doc)
        rec.record(case, check(case))
        return
    RUN.hyp_job(cases(job['stratum']), check, job['examples'], seed, rec,
                max_seconds=(150 if tier == 'quick' else 3000))


def mig_name(i):
    return '0001_initial' if i == 1 else '%04d_m' % i


def fld(name):
    return S.new_field(name, 'Integer', null=True)


def build(case, n_evos, moved, n_migs, extra_field=False, neighbours_new=True):
    """A project version: pa with its first n_evos evolutions (+ the hand-over
    evolution when moved) and its first n_migs migrations (0 = no migrations
    package)."""
    k, m, p = case['k'], case['m'], case['p']
    spec = S.new_project()
    apps = ['pa']
    # model: a, columns of the marked migrations (exist since ever), evolution columns, columns
    # of the later migrations (only once those migrations are part of the project)
    fields = [fld('a')] + [fld('m_%d' % i) for i in range(1, p)]
    fields += [fld('c_e%d' % (i + 1)) for i in range(n_evos)]
    fields += [fld('m_%d' % i) for i in range(max(p, 1), n_migs)]
    if extra_field:
        fields.append(fld('zz'))
    S.add_model(spec, 'pa', S.new_model('Book', fields))
    evos = []
    for i in range(n_evos):
        f = fld('c_e%d' % (i + 1))
        f['uid'] = 'pa.Book.c_e%d' % (i + 1)
        evos.append({'label': 'e%d' % (i + 1), 'mutations': [
            {'kind': 'AddField', 'app': 'pa', 'model': 'Book', 'field': f, 'initial': None}]})
    if moved:
        mv = {'kind': 'MoveToDjangoMigrations', 'app': 'pa',
              'mark_applied': None if case.get('default_arg') else
              [mig_name(i) for i in range(1, p + 1)]}
        # (sharing a file with the last change is only meaningful while that
        # evolution is still pending in the run under test)
        shared_ok = case['start'][0] != 'evo' or case['start'][1] < k
        if case.get('split_move') or not evos or not shared_ok:
            evos.append({'label': 'move', 'mutations': [mv]})
        else:
            # the hand-over shares an evolution file with the last change
            evos[-1] = {'label': evos[-1]['label'], 'mutations': evos[-1]['mutations'] + [mv]}
    evolutions = {'pa': evos}
    deps = {}
    if moved and case.get('declared_after') and case.get('mig_neighbour') and neighbours_new:
        deps['pa'] = {'per_evolution': {evos[-1]['label']: {
            'AFTER_MIGRATIONS': [['pm', mig_name(2)]]}}}
    migrations = {}
    if n_migs:
        migs = []
        base = [fld('a')] + [fld('c_e%d' % (i + 1)) for i in range(k)]
        for i in range(1, n_migs + 1):
            if i == 1:
                ops = [{'op': 'CreateModel', 'app': 'pa', 'spec': S.new_model('Book', base)}]
            else:
                ops = [{'op': 'AddField', 'model': 'Book', 'field': fld('m_%d' % (i - 1))}]
            migs.append({'name': mig_name(i), 'initial': i == 1,
                         'dependencies': [['pa', mig_name(i - 1)]] if i > 1 else [],
                         'operations': ops})
        migrations['pa'] = migs
    if case.get('evo_neighbour'):
        apps.append('pb')
        n = 2 if neighbours_new else 1
        S.add_model(spec, 'pb', S.new_model('Book', [fld('a')] + [fld('c_e%d' % (i + 1))
                                                                 for i in range(n)]))
        ev = []
        for i in range(n):
            f = fld('c_e%d' % (i + 1))
            f['uid'] = 'pb.Book.c_e%d' % (i + 1)
            ev.append({'label': 'e%d' % (i + 1), 'mutations': [
                {'kind': 'AddField', 'app': 'pb', 'model': 'Book', 'field': f, 'initial': None}]})
        evolutions['pb'] = ev
    if case.get('mig_neighbour'):
        apps.append('pm')
        n = 2 if neighbours_new else 1
        S.add_model(spec, 'pm', S.new_model('Book', [fld('a')] + [fld('m_%d' % i)
                                                                 for i in range(1, n)]))
        migs = []
        for i in range(1, n + 1):
            if i == 1:
                ops = [{'op': 'CreateModel', 'app': 'pm', 'spec': S.new_model('Book', [fld('a')])}]
            else:
                ops = [{'op': 'AddField', 'model': 'Book', 'field': fld('m_%d' % (i - 1))}]
            migs.append({'name': mig_name(i), 'initial': i == 1,
                         'dependencies': [['pm', mig_name(i - 1)]] if i > 1 else [],
                         'operations': ops})
        migrations['pm'] = migs
    spec = mutgen.ensure_uids(spec)
    return {'apps': apps, 'spec': spec, 'evolutions': evolutions, 'deps': deps,
            'migrations': migrations, 'move_label': evos[-1]['label'] if moved else None}


def executed(trace, known_before):
    """Ordered list of executed units: ('mig', app, name) from signals;
    ('evo', app, label) from the ADD COLUMN of the label's column or the table
    rebuild in which that column first appears; ('migsql', app, column) and
    ('create', app, 'Book') from statements."""
    import re
    out = []
    known = {a: set(v) for a, v in known_before.items()}
    sql = [t for t in trace if t[0] == 'sql']
    idx = {id(t): i for i, t in enumerate(sql)}
    for t in trace:
        if t[0] == 'signal' and t[1] == 'applying_migration':
            out.append(('mig',) + tuple(t[2].get('migration')))
        elif t[0] == 'sql':
            s_ = t[2].strip()
            m = re.match(r'ALTER TABLE "(p[ab])_book" ADD COLUMN "c_(e\d+)"', s_)
            if m:
                out.append(('evo', m.group(1), m.group(2)))
                known.setdefault(m.group(1), set()).add(m.group(2))
            m = re.match(r'ALTER TABLE "(p[am])_book" ADD COLUMN "(m_\d+)"', s_)
            if m:
                out.append(('migsql', m.group(1), m.group(2)))
            m = re.match(r'CREATE TABLE "(p[abm])_book"', s_)
            if m:
                out.append(('create', m.group(1), 'Book'))
            if s_.startswith('CREATE TABLE "TEMP_TABLE"'):
                target = None
                for t2 in sql[idx[id(t)] + 1:]:
                    m2 = re.match(r'ALTER TABLE "TEMP_TABLE" RENAME TO "(p[ab])_book"',
                                  t2[2].strip())
                    if m2:
                        target = m2.group(1)
                        break
                    if t2[2].strip().startswith('CREATE TABLE "TEMP_TABLE"'):
                        break
                if target:
                    for lab in re.findall(r'"c_(e\d+)"', s_):
                        if lab not in known.setdefault(target, set()):
                            out.append(('evo', target, lab))
                            known[target].add(lab)
    return out


def check(case):
    from ..run import sha
    out = {'labels': ['entry:' + case['entry'], 'start:' + case['start'][0],
                      'k:%d' % case['k'], 'm:%d' % case['m'], 'p:%d' % case['p']],
           'atoms': [], 'nontrivial': False}
    atoms = out['atoms']
    k, m, p = case['k'], case['m'], case['p']
    start = case['start']
    if case.get('evo_neighbour'):
        out['labels'].append('with_evolution_app')
    if case.get('mig_neighbour'):
        out['labels'].append('with_migrations_app')
    v1 = build(case, k, True, m)
    v2 = build(case, k, True, m, extra_field=True)
    if start[0] == 'fresh':
        v0 = None
        applied_evos, recorded_migs = 0, 0
    elif start[0] == 'evo':
        v0 = build(case, start[1], False, 0, neighbours_new=False)
        applied_evos, recorded_migs = start[1], 0
    else:
        v0 = build(case, k, True, start[1], neighbours_new=False)
        applied_evos, recorded_migs = k, start[1]
    with P.Scratch('c10_') as sc:
        db = sc.sub('db.sqlite3')
        d1 = sc.sub('v1', 'x')[:-2]
        d2 = sc.sub('v2', 'x')[:-2]
        P.write_project(d1, v1)
        P.write_project(d2, v2)
        if v0 is not None:
            d0 = sc.sub('v0', 'x')[:-2]
            P.write_project(d0, v0)
            inst = P.run_driver(d0, db, {'steps': [c04.upgrade_step('api')], 'dump': ['default']})
            if c04.run_failed('install', inst, []):
                out['rejected'] = 'install_failed'
                out['error'] = str(inst.get('driver_error') or
                                   [s_.get('exc') for s_ in inst['steps']])[:500]
                return out
        if case.get('pre_recorded') and start[0] == 'evo':
            out['labels'].append('marked_migrations_already_recorded')
            pre = P.run_driver(d0, db, {'steps': [{'op': 'sql', 'statements': [
                "INSERT INTO django_migrations (app, name, applied) VALUES "
                "('pa', '%s', '2020-01-01 00:00:00')" % mig_name(i)
                for i in range(1, case['pre_recorded'] + 1)]}], 'dump': []})
            if c04.run_failed('pre', pre, []):
                out['rejected'] = 'pre_record_failed'
                return out
        run = P.run_driver(d1, db, {'steps': [c04.upgrade_step(case['entry'])],
                                    'dump': ['default']})
        if run.get('driver_error'):
            atoms.append(['driver_error', run['driver_error'][-300:]])
            return out
        s = run['steps'][0]
        if not s['ok']:
            e = s['exc']
            atoms.append(['run_failed', e['type'], e.get('where'), e['msg'][:160]])
            return out
        ran = any(t[0] == 'signal' and t[1] == 'evolving' for t in s['trace']) or \
            any(t[0] == 'signal' and t[1] == 'applying_migration' for t in s['trace'])
        ex = executed(s['trace'], {'pa': {'e%d' % (i + 1) for i in range(applied_evos)},
                                   'pb': {'e1'} if start[0] != 'fresh' else set()})
        # declared requirement of the hand-over evolution (C09 in the C10 setting): when both
        # units are announced in this run, the neighbour's migration comes first
        if v1['deps'].get('pa'):
            out['labels'].append('handover_declares_after_migration')
            i_mig = i_evo = None
            for i_t, t in enumerate(s['trace']):
                if t[0] != 'signal':
                    continue
                if t[1] == 'applying_migration' and \
                        list(t[2].get('migration') or []) == ['pm', mig_name(2)] and i_mig is None:
                    i_mig = i_t
                if t[1] == 'applying_evolution' and t[2].get('app') == 'pa' and \
                        v1['move_label'] in (t[2].get('evolutions') or []) and i_evo is None:
                    i_evo = i_t
            if i_mig is not None and i_evo is not None:
                out['labels'].append('handover_requirement_in_force')
                if i_evo < i_mig:
                    atoms.append(['declared_after_migration_broken', v1['move_label']])
        d = run['dumps']['default']
        if not ran:
            # nothing was required: only possible when the app is already handed over
            out['labels'].append('run_not_required')
            if start[0] != 'mig':
                atoms.append(['upgrade_not_performed', start[0]])
            if ex:
                atoms.append(['changes_without_a_run'])
            want_migs = recorded_migs
        else:
            want_migs = m
        # --- django_migrations
        rows = [tuple(r) for r in (d.get('migrations') or []) if r[0] == 'pa']
        names = [r[1] for r in rows]
        for i in range(1, m + 1):
            c = names.count(mig_name(i))
            if i <= want_migs and c != 1:
                atoms.append(['migration_recorded_%s' % ('twice' if c > 1 else 'never'),
                              'marked' if i <= p else 'later'])
            if i > want_migs and c:
                atoms.append(['migration_recorded_unexpectedly'])
        # --- which migrations were executed
        ex_migs = [u[2] for u in ex if u[0] == 'mig' and u[1] == 'pa']
        if ran:
            if start[0] == 'fresh':
                want_ex = [mig_name(i) for i in range(1, m + 1)]
            elif start[0] == 'evo':
                want_ex = [mig_name(i) for i in range(p + 1, m + 1)]
            else:
                want_ex = [mig_name(i) for i in range(start[1] + 1, m + 1)]
            if ex_migs != want_ex:
                marked = [n for n in ex_migs if n in [mig_name(i) for i in range(1, p + 1)]]
                atoms.append(['executed_migrations_differ',
                              'marked_migration_executed' if marked and start[0] != 'fresh'
                              else ('order' if sorted(ex_migs) == sorted(want_ex) else 'set'),
                              want_ex, ex_migs])
            # pending evolutions of pa before its first executed migration
            pend_evos = ['e%d' % (i + 1) for i in range(applied_evos, k)] \
                if start[0] == 'evo' else []
            ex_evos = [u[2] for u in ex if u[0] == 'evo' and u[1] == 'pa']
            if start[0] != 'fresh' and sorted(ex_evos) != sorted(pend_evos):
                atoms.append(['pending_evolutions_not_executed_once', pend_evos, ex_evos])
            if start[0] == 'fresh' and ex_evos:
                atoms.append(['fresh_install_executed_evolutions'])
            first_mig = next((i for i, u in enumerate(ex) if u[0] in ('mig', 'migsql')
                              and u[1] == 'pa'), None)
            last_evo = max([i for i, u in enumerate(ex)
                            if u[0] == 'evo' and u[1] == 'pa'] or [-1])
            if first_mig is not None and last_evo > first_mig and start[0] == 'evo':
                atoms.append(['evolution_after_migration'])
            # final columns
            cols = [c_[0] if isinstance(c_, list) else c_ for c_ in
                    (d['tables'].get('pa_book') or {}).get('cols', [])]
            want_cols = {'id', 'a'} | {'c_e%d' % (i + 1) for i in range(k)} | \
                {'m_%d' % i for i in range(1, m)}
            if set(cols) != want_cols:
                atoms.append(['final_columns_differ', sorted(want_cols - set(cols)),
                              sorted(set(cols) - want_cols)])
            # evolutions recorded once
            erows = [(r[0], r[1]) for r in (d.get('evolutions') or []) if r[0] == 'pa']
            for e_ in v1['evolutions']['pa']:
                c = erows.count(('pa', e_['label']))
                if c != 1:
                    atoms.append(['evolution_recorded_%s' % ('twice' if c > 1 else 'never')])
            # stored signature
            sc_ = (d.get('sig_check') or {}).get('stored_apps') or {}
            pa_sig = sc_.get('pa')
            if pa_sig is None:
                atoms.append(['signature_lacks_app'])
            else:
                if pa_sig['upgrade_method'] != 'migrations':
                    atoms.append(['signature_upgrade_method', str(pa_sig['upgrade_method'])])
                if sorted(pa_sig['applied_migrations'] or []) != sorted(names):
                    atoms.append(['signature_migrations_differ_from_table',
                                  sorted(pa_sig['applied_migrations'] or []), sorted(names)])
            # neighbours
            if case.get('evo_neighbour'):
                exb = [u for u in ex if u[0] == 'evo' and u[1] == 'pb']
                if start[0] != 'fresh' and [u[2] for u in exb] != ['e2']:
                    atoms.append(['neighbour_evolution_not_executed_once', [u[2] for u in exb]])
            if case.get('mig_neighbour'):
                exm = [u[2] for u in ex if u[0] == 'mig' and u[1] == 'pm']
                want = [mig_name(1), mig_name(2)] if start[0] == 'fresh' else [mig_name(2)]
                if exm != want:
                    atoms.append(['neighbour_migration_not_executed_once', exm])
        # --- second run: a no-op
        for entry in ('api', case['entry']):
            again = P.run_driver(d1, db, {'steps': [c04.upgrade_step(entry)], 'dump': ['default']})
            if again.get('driver_error'):
                atoms.append(['driver_error', again['driver_error'][-300:]])
                return out
            s2 = again['steps'][0]
            if not s2['ok']:
                atoms.append(['second_run_failed', s2['exc']['type'], s2['exc']['msg'][:120]])
                break
            if ran and s2.get('evolution_required'):
                atoms.append(['second_run_requires_evolution'])
            chg = [t[2][:80] for t in s2['trace'] if t[0] == 'sql' and t[2].lstrip().upper()
                   .startswith(('ALTER', 'CREATE', 'DROP'))]
            if ran and chg:
                atoms.append(['second_run_changed_schema', chg[:2]])
            d_again = again['dumps']['default']
            if ran and (d_again.get('migrations') != d.get('migrations') or
                        d_again.get('evolutions') != d.get('evolutions')):
                atoms.append(['second_run_changed_bookkeeping'])
        # --- third: the model changes without a migration: no hints, no SQL for the app
        if ran:
            third = P.run_driver(d2, db, {'steps': [
                {'op': 'evolve_api', 'hinted': True, 'execute': False},
                {'op': 'evolve_api', 'force': True}], 'dump': ['default']})
            if third.get('driver_error'):
                atoms.append(['driver_error', third['driver_error'][-300:]])
                return out
            h, f = third['steps']
            if not h['ok']:
                atoms.append(['hint_query_failed', h['exc']['type'], h['exc']['msg'][:120]])
            else:
                if h.get('evolution_required'):
                    atoms.append(['handed_over_app_gets_hints', 'evolution_required'])
                if 'pa' in (h.get('diff_text') or ''):
                    atoms.append(['handed_over_app_gets_hints', 'diff'])
            touched = [t[2][:80] for t in f['trace'] if t[0] == 'sql' and '"pa_book"' in t[2]
                       and t[2].lstrip().upper().startswith(('ALTER', 'CREATE', 'DROP'))]
            if touched:
                atoms.append(['handed_over_app_gets_evolution_sql', touched[:2]])
    out['nontrivial'] = start[0] != 'fresh' and ran and m > p
    out['nontrivial_keys'] = [sha(case)]
    out['sample'] = {'case': case, 'executed': [list(u) for u in ex][:12]}
    return out


def atom_bucket(atom):
    if len(atom) > 1 and isinstance(atom[1], str):
        return '%s:%s' % (atom[0], atom[1])
    return atom[0]


def candidates(case):
    for key in ('evo_neighbour', 'mig_neighbour', 'split_move', 'default_arg', 'pre_recorded'):
        if case.get(key):
            c = copy.deepcopy(case)
            c[key] = False
            yield c
    if case['entry'] != 'api':
        c = copy.deepcopy(case)
        c['entry'] = 'api'
        yield c
    if case['m'] > case['p'] and case['m'] > 1 and \
            not (case['start'][0] == 'mig' and case['start'][1] >= case['m'] - 1):
        c = copy.deepcopy(case)
        c['m'] -= 1
        yield c
    if case['k'] > 0 and not (case['start'][0] == 'evo' and case['start'][1] >= case['k']):
        c = copy.deepcopy(case)
        c['k'] -= 1
        yield c
    if case['p'] > 1 and not (case['start'][0] == 'mig'):
        c = copy.deepcopy(case)
        c['p'] -= 1
        yield c
