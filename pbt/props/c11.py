"""C11 - renames and deletions keep every cross-reference consistent."""
import copy
import json

from hypothesis import strategies as st

from .. import evolvecase as EC
from .. import shrink as SH
from .. import specs as S
from .. import mutgen
from .. import refmodel as R
from . import c01

ID = 'C11'
LEVEL = 'exploration'
RULE = ('Generated model sets of 2-3 models over 1-2 apps with ForeignKey/OneToOne/ManyToMany '
        'relations inside and across apps (self relations, prefix-sharing model names) x '
        'reference-model walks of 1-6 mutations over RenameModel, RenameAppLabel, RenameField, '
        'DeleteField, DeleteModel, DeleteApplication and AddField of relations. Signature level: '
        'after every simulated step each FieldSignature.related_model must resolve in the '
        'signature and equal the reference model\'s target. Database level (sequences without '
        'RenameAppLabel, with rows): every PRAGMA foreign_key_list target table/column exists, '
        'PRAGMA foreign_key_check is empty, FK atoms equal the fresh database\'s. Non-trivial: '
        'the sequence renames or deletes something that another model refers to; distinct = '
        'SHA-1 of (spec, sequence).')
ASSUMPTIONS = [
    'deleting a model that others still refer to is excluded by the generator (Django would '
    'not load such a project); "explicitly deleted" dangling references are therefore not generated',
    'a run that fails outright is C01\'s subject and only its signature-level part is judged here',
]
MIN_EVALUATIONS = {'quick': 200, 'thorough': 5000}


def setup_worker():
    c01.setup_worker()


@st.composite
def cases(draw, stratum):
    feats = S.Features(meta=False, positive=False, max_fields=3)
    spec = None
    for _ in range(3):
        spec = mutgen.ensure_uids(draw(S.project_specs(feats, min_models=2)))
        if any(f['target'] for _a, _n, m in S.iter_models(spec) for f in m['fields']):
            break
    kinds = ['RenameModel', 'RenameField', 'DeleteField', 'DeleteModel', 'DeleteApplication',
             'AddField']
    avoid = set(c01.AVOID_ALL)
    if stratum == 'applabel':
        kinds = ['RenameAppLabel', 'RenameModel', 'RenameField', 'AddField', 'DeleteField']
    if stratum == 'known':
        avoid = set()
    if stratum == 'pk':
        # renames of referenced primary keys between other mutations of the referring models
        kinds = ['AddField', 'RenameField', 'DeleteField', 'ChangeField']
    opts = mutgen.WalkOpts(kinds=kinds, max_len=6, avoid=avoid, pk_rename=(stratum == 'pk'))
    seq, _final = draw(mutgen.walks(spec, feats, opts))
    rows, links = draw(EC.rows_for(spec, [m for m in seq if m['kind'] != 'RenameAppLabel'], 3)) \
        if stratum != 'applabel' else ({}, {})
    return {'mode': 'walk', 'spec': spec, 'seq': seq, 'rows': rows, 'links': links}


def jobs(tier, scale=1.0):
    per = int((200 if tier == 'quick' else 8000) * scale)
    strata = ['main', 'applabel', 'pk', 'known']
    return [{'kind': 'hyp', 'stratum': strata[i % 4], 'shard': i, 'examples': per}
            for i in range(16)]


def run_job(job, seed, rec, tier):
    from .. import run as RUN
    setup_worker()
    if job['kind'] == 'replay':
        with open(job['file']) as fh:
            doc = json.load(fh)
        case = doc.get('case', doc)
        rec.record(case, check(case))
        return
    RUN.hyp_job(cases(job['stratum']), check, job['examples'], seed, rec,
                max_seconds=(100 if tier == 'quick' else 3000))


def signature_walk(sig, ref_spec, step, atoms):
    """Every relation recorded in the signature resolves and equals the
    reference model's target."""
    for app_sig in sig.app_sigs:
        for model_sig in app_sig.model_sigs:
            ref_model = S.get_model(ref_spec, app_sig.app_id, model_sig.model_name)
            for field_sig in model_sig.field_sigs:
                rel = field_sig.related_model
                if not rel:
                    continue
                where = '%s.%s.%s' % (app_sig.app_id, model_sig.model_name, field_sig.field_name)
                try:
                    app_label, model_name = rel.split('.')
                except ValueError:
                    atoms.append(['sig_malformed', step, where, rel])
                    continue
                tgt_app = sig.get_app_sig(app_label)
                if tgt_app is None or tgt_app.get_model_sig(model_name) is None:
                    atoms.append(['sig_dangling', step, where, rel])
                if ref_model is not None:
                    rf = S.get_field(ref_model, field_sig.field_name)
                    if rf is not None and rf['target'] and '%s.%s' % tuple(rf['target']) != rel:
                        atoms.append(['sig_wrong_target', step, where, rel,
                                      '%s.%s' % tuple(rf['target'])])
            if ref_model is None:
                atoms.append(['sig_model_unexpected', step,
                              '%s.%s' % (app_sig.app_id, model_sig.model_name)])
    # every model of the reference exists in the signature
    for a, n, m in S.iter_models(ref_spec):
        app_sig = sig.get_app_sig(a)
        if app_sig is None or app_sig.get_model_sig(n) is None:
            atoms.append(['sig_model_missing', step, '%s.%s' % (a, n)])


def check(case):
    from .. import env, inproc, render, dbnorm
    env.setup()
    from django_evolution.db.state import DatabaseState
    from django_evolution.errors import SimulationFailure
    out = {'labels': [], 'atoms': [], 'nontrivial': False}
    spec = mutgen.ensure_uids(copy.deepcopy(case['spec']))
    seq = mutgen.ensure_seq_uids(case['seq'])
    try:
        R.validate(spec)
        trail = [spec]
        for m in seq:
            trail.append(R.apply(trail[-1], m, strict=True))
    except (R.RefInvalid, KeyError, TypeError, AttributeError):
        out['rejected'] = 'ref_invalid'
        return out
    atoms = out['atoms']
    env.reset_all()
    _reg, model_map = render.build_models(spec)
    sig = render.project_sig(model_map, apps=sorted(spec['apps']))
    state = DatabaseState('default', scan=False)
    referenced = False
    for i, m in enumerate(seq):
        out['labels'].append('mut:' + m['kind'])
        cur = trail[i]
        if m['kind'] in ('RenameModel', 'DeleteModel'):
            name = m.get('old', m.get('model'))
            if [r for r in S.relations_to(cur, m['app'], name)]:
                referenced = True
                out['labels'].append('%s_of_referenced_model' % m['kind'])
        if m['kind'] == 'RenameAppLabel':
            for n in cur['apps'][m['old']]['models']:
                if S.relations_to(cur, m['old'], n):
                    referenced = True
                    out['labels'].append('RenameAppLabel_of_referenced_app')
        if m['kind'] == 'RenameField':
            out['labels'].append('RenameField')
        try:
            mut = render.to_mutation(m)
            mut.run_simulation(app_label=m.get('old', m['app']) if m['kind'] == 'RenameAppLabel'
                               else m['app'],
                               project_sig=sig, database_state=state, database='default')
        except SimulationFailure as e:
            out['rejected'] = 'simulation'
            return out
        except Exception as e:
            atoms.append(EC.exception_atom(e, 'simulate'))
            break
        signature_walk(sig, trail[i + 1], i, atoms)
        if atoms:
            break
    out['nontrivial'] = referenced
    has_label_rename = any(m['kind'] == 'RenameAppLabel' for m in seq)
    if not atoms and not has_label_rename:
        res = EC.run_case(case, want_rows=True, batch=False)
        out['res'] = res
        if res['rejected']:
            pass
        elif any(a[0] in ('exception', 'hint_rejected') for a in res['atoms']):
            out['labels'].append('run_failed(C01)')
        else:
            ex = dbnorm.django_exec('default')
            for a in res['atoms']:
                if a[0] == 'schema' and a[2] == 'fk':
                    atoms.append(a)
            tables = set(res['actual_dump'])
            for t, d in res['actual_dump'].items():
                for col, tt, tc in d['fks']:
                    if tt not in tables:
                        atoms.append(['fk_target_table_missing', t, col, tt])
                    elif tc not in {c[0] for c in res['actual_dump'][tt]['columns']}:
                        atoms.append(['fk_target_column_missing', t, col, tt, tc])
            try:
                bad = res.get('fk_check') or []
            except Exception:
                bad = []
            for row in bad:
                atoms.append(['fk_check', row[0], row[2]])
            out['labels'].append('db_level')
            if any(m['kind'] == 'RenameField' and m['old'] == 'id' for m in seq):
                out['labels'].append('referenced_pk_renamed')
        # the same invariants on the production (one optimised batch) execution
        from .. import findings as F
        flags, _t = F.c03_flags(dict(case, cuts=[]), {})
        model_level = any('model_level' in fl for fl in flags.values())
        if model_level:
            # batches with RenameModel/DeleteModel next to other mutations are known to
            # diverge from the one-at-a-time run (F-C03-4, reported by the C03 check)
            out['labels'].append('batch_skipped(F-C03-4)')
        elif any('multi_initial' in fl for fl in flags.values()):
            # two initial values in one batch are bound in the wrong order (F-C03-2): a
            # foreign-key column can receive the other field's value; C03's subject
            out['labels'].append('batch_skipped(F-C03-2)')
            model_level = True
        if not atoms and len(seq) > 1 and not res['rejected'] and not model_level:
            resb = EC.run_case(case, want_rows=True, batch=True)
            if resb['rejected'] or any(a[0] in ('exception', 'hint_rejected')
                                        for a in resb['atoms']):
                out['labels'].append('batch_failed(C03)')
            else:
                dump = resb['actual_dump']
                for t, d in dump.items():
                    for col, tt, tc in d['fks']:
                        if tt not in dump:
                            atoms.append(['batch_fk_target_table_missing', t, col, tt])
                        elif tc not in {c[0] for c in dump[tt]['columns']}:
                            atoms.append(['batch_fk_target_column_missing', t, col, tt, tc])
                for row in (resb.get('fk_check') or []):
                    atoms.append(['batch_fk_check', row[0], row[2]])
                out['labels'].append('db_level_batch')
    from ..run import sha
    out['nontrivial_keys'] = [sha({'spec': case['spec'], 'seq': case['seq']})]
    out['sample'] = {'spec': case['spec'], 'seq': [render.describe(m) for m in seq]}
    return out


def atom_bucket(atom):
    if atom[0] == 'schema':
        return 'fk:%s' % atom[4]
    if atom[0] == 'exception':
        return 'exception:%s:%s:%s' % (atom[1], atom[2], atom[3])
    return str(atom[0])


def candidates(case):
    for c in SH.spec_seq_candidates(case):
        yield c
