"""C12 - upgrades that cannot reach the current models never touch the database."""
import copy
import json

from hypothesis import strategies as st

from .. import evolvecase as EC
from .. import history as H
from .. import project as P
from .. import specs as S
from .. import refmodel as R
from .. import dbnorm
from . import c04, c07

ID = 'C12'
LEVEL = 'exploration'
RULE = ('Valid (V0, V1, evolution E) triples from the history generator (one app evolving, rows '
        'in place) whose evolution file is perturbed in one of 8 ways: drop / duplicate / swap '
        'mutations, rename a model or field argument to a missing or to another existing name, '
        'change an attribute value, remove an initial value, retarget a mutation to another '
        'model, delete the primary key. The project at V1 carries the perturbed file and is '
        'upgraded with call_command("evolve", execute=True, interactive=False) in a fresh '
        'process. Validity predicate: command failed => it failed with a CommandError, issued '
        'no schema/data-changing statement, and schema, rows, recorded evolutions and stored '
        'signature are untouched; command succeeded => the database has the schema of a fresh '
        'V1 and a stored signature with empty diffs. Non-trivial: the perturbed evolution was '
        'rejected, or differs from E and was accepted; distinct = SHA-1 of (history, perturbation).')
ASSUMPTIONS = [
    'the unperturbed evolution is also run (control); histories flagged by an open C03 finding '
    'are not generated',
]
MIN_EVALUATIONS = {'quick': 40, 'thorough': 1000}
SHRINK_CHECKS = 25

KINDS = ['drop', 'duplicate', 'swap', 'rename_model_arg', 'rename_field_arg', 'change_attr',
         'spurious_attr', 'spurious_attr',
         'remove_initial', 'retarget_model', 'delete_pk', 'nonnull_type_change', 'none']
# perturbations that produce exactly what the property says must be rejected
MUST_REJECT = ('remove_initial:nonnull', 'delete_pk', 'duplicate:AddField', 'rename_model_arg:missing',
               'rename_field_arg', 'nonnull_type_change', 'spurious_attr:unique',
               'spurious_attr:plain')


FIELD_KINDS = ['AddField', 'DeleteField', 'ChangeField', 'RenameField']


@st.composite
def cases(draw, stratum='any'):
    feats = S.Features(meta=False, positive=False)
    if stratum == 'two_apps':
        # two apps, each with one valid evolution; the first one gets perturbed
        h = None
        for _ in range(4):
            h = draw(H.histories(S.Features(meta=False, positive=False, max_models=3),
                                 max_steps=2, min_steps=2, allow_new_model=False,
                                 allow_new_app=False, max_len=2, kinds=FIELD_KINDS))
            if len({s_['app'] for s_ in h['steps']}) == 2:
                break
    else:
        # (redrawn a few times until the sequence is free of the optimiser-finding
        # flags that check() would reject: construction over rejection)
        from .. import findings as F
        for _ in range(4):
            h = draw(H.histories(feats, max_steps=1, min_steps=1, allow_new_model=False,
                                 allow_new_app=False, max_len=3,
                                 kinds=FIELD_KINDS + ['DeleteModel', 'RenameModel']))
            try:
                fl, _t = F.c03_flags({'mode': 'walk', 'spec': H.versions(h)[0]['spec'],
                                      'seq': copy.deepcopy(H.pending_sequence(h, 0)),
                                      'cuts': []}, {})
            except Exception:
                continue
            if not any(fl.values()):
                break
    vers = H.versions(h)
    if not h['steps']:
        return {'history': h, 'rows': {}, 'links': {}, 'perturb': {'kind': 'none', 'i': 0, 'j': 0,
                                                                  'pick': 0}}
    seq = h['steps'][0]['seq']
    rows, links = draw(EC.rows_for(vers[0]['spec'], H.pending_sequence(h, 0), 3))
    i, j, pick = draw(st.integers(0, 3)), draw(st.integers(0, 3)), draw(st.integers(0, 5))
    # construction over rejection: only perturbation kinds that apply to this evolution
    ok = [k for k in KINDS
          if perturb(seq, vers[0]['spec'], {'kind': k, 'i': i, 'j': j, 'pick': pick})[0] is not None]
    if stratum == 'nonnull':
        pref = [k for k in ('nonnull_type_change', 'remove_initial') if k in ok]
        ok = pref or ok
    if stratum == 'two_apps':
        pref = [k for k in ('drop', 'rename_model_arg', 'retarget_model', 'change_attr') if k in ok]
        ok = pref or ok
    kind = draw(st.sampled_from(ok or ['none']))
    return {'history': h, 'rows': rows, 'links': links,
            'keep_deps': stratum == 'two_apps' and draw(st.booleans()),
            'perturb': {'kind': kind, 'i': i, 'j': j, 'pick': pick}}


def jobs(tier, scale=1.0):
    per = max(1, int((8 if tier == 'quick' else 120) * scale))
    strata = ['any', 'nonnull', 'any', 'two_apps']
    return [{'kind': 'hyp', 'stratum': strata[i % 4], 'shard': i, 'examples': per}
            for i in range(16)]


def run_job(job, seed, rec, tier):
    from .. import run as RUN
    if job['kind'] == 'replay':
        with open(job['file']) as fh:
            doc = json.load(fh)
        case = doc.get('case', doc)
        rec.record(case, check(case))
        return
    RUN.hyp_job(cases(job.get('stratum', 'any')), check, job['examples'], seed, rec,
                max_seconds=(150 if tier == 'quick' else 3000))


def perturb(seq, spec0, p):
    """Returns (new sequence, label) or (None, reason) when not applicable."""
    seq = copy.deepcopy(seq)
    k = p['kind']
    n = len(seq)
    if n == 0:
        return None, 'empty'
    i = p['i'] % n
    j = p['j'] % n
    m = seq[i]
    if k == 'none':
        return seq, 'none'
    if k == 'drop':
        del seq[i]
        return seq, k
    if k == 'duplicate':
        seq.insert(i, copy.deepcopy(seq[i]))
        return seq, k + (':AddField' if m['kind'] == 'AddField' else '')
    if k == 'nonnull_type_change':
        # replace the evolution by a type change to NOT NULL without an initial value
        for a, n2, mm in S.iter_models(spec0):
            if a != m['app']:
                continue
            for f in mm['fields']:
                if f['kind'] in ('Char', 'Integer') and f['null'] and not f['unique'] and \
                        f['name'] not in S.all_meta_refs(mm):
                    nk = 'Text' if f['kind'] == 'Char' else 'BigInteger'
                    attrs = {'null': False}
                    for key in ('db_index', 'db_column'):
                        if f[key]:
                            attrs[key] = f[key]
                    return [{'kind': 'ChangeField', 'app': a, 'model': n2, 'name': f['name'],
                             'attrs': attrs, 'field_kind': nk, 'initial': None}], k
        return None, 'no nullable field'
    if k == 'swap':
        if i == j:
            return None, 'same index'
        seq[i], seq[j] = seq[j], seq[i]
        return seq, k
    if k == 'rename_model_arg':
        key = 'old' if m['kind'] == 'RenameModel' else 'model'
        if key not in m:
            return None, 'no model arg'
        others = [n2 for a, n2, _m in S.iter_models(spec0) if a == m['app'] and n2 != m[key]]
        m[key] = ['Missing', 'Missing'] [0] if p['pick'] % 2 == 0 or not others else others[0]
        return seq, k + (':missing' if m[key] == 'Missing' else ':other')
    if k == 'rename_field_arg':
        key = {'DeleteField': 'name', 'ChangeField': 'name', 'RenameField': 'old'}.get(m['kind'])
        if key is None:
            return None, 'no field arg'
        m[key] = 'missing_field'
        return seq, k
    if k == 'spurious_attr':
        # an extra ChangeField(db_index=<flipped>) on a field of a model that the evolution
        # changes anyway (so the mutation is looked at) but which the models do not declare:
        # a residual difference remains; unique fields first (their db_index is easy to
        # overlook)
        try:
            final = R.apply_all(copy.deepcopy(spec0), seq, strict=False)
        except Exception:
            return None, 'no final spec'
        named = {(x.get('model'), x.get('name') or x.get('old') or
                  (x.get('field') or {}).get('name')) for x in seq}
        cands = []
        for x in seq:
            if not x.get('model') or x['kind'] in ('DeleteModel', 'RenameModel'):
                continue
            mm = S.get_model(final, x['app'], x['model'])
            m0 = S.get_model(spec0, x['app'], x['model'])
            if mm is None or m0 is None:
                continue
            for f in mm['fields']:
                f0 = S.get_field(m0, f['name'])
                if f0 is None or f['kind'] in S.REL_KINDS or (x['model'], f['name']) in named \
                        or f['name'] in S.all_meta_refs(mm):
                    continue
                cands.append((0 if f['unique'] else 1, x['app'], x['model'], f))
        if not cands:
            return None, 'no untouched field'
        cands.sort(key=lambda c: (c[0], c[2], c[3]['name']))
        _u, app_, model_, f = cands[0]
        seq.append({'kind': 'ChangeField', 'app': app_, 'model': model_, 'name': f['name'],
                    'attrs': {'db_index': not f['db_index']}, 'field_kind': None,
                    'initial': None})
        return seq, k + (':unique' if f['unique'] else ':plain')
    if k == 'change_attr':
        if m['kind'] == 'AddField' and m['field']['kind'] == 'Char':
            m['field']['max_length'] = (m['field']['max_length'] or 10) + 7
            return seq, k + ':add_max_length'
        if m['kind'] == 'AddField' and m['field']['kind'] not in S.REL_KINDS:
            m['field']['db_index'] = not m['field']['db_index']
            return seq, k + ':add_db_index'
        if m['kind'] == 'ChangeField' and 'max_length' in m['attrs']:
            m['attrs']['max_length'] += 3
            return seq, k + ':change_max_length'
        if m['kind'] == 'ChangeField' and 'db_index' in m['attrs']:
            m['attrs']['db_index'] = not m['attrs']['db_index']
            return seq, k + ':change_db_index'
        return None, 'no attr'
    if k == 'remove_initial':
        if m['kind'] in ('AddField', 'ChangeField') and m.get('initial') is not None:
            m['initial'] = None
            nonnull = (m['kind'] == 'AddField' and not m['field']['null']) or \
                (m['kind'] == 'ChangeField' and m['attrs'].get('null') is False)
            # a column that the same evolution deletes afterwards is never made
            # non-null in the database (the documented optimisation drops mutations
            # of a field that is deleted later): nothing the clause protects against
            fname = m['field']['name'] if m['kind'] == 'AddField' else m['name']
            gone = False
            for later in seq[i + 1:]:
                if later.get('model') == m['model'] and later['app'] == m['app']:
                    if later['kind'] == 'DeleteField' and later['name'] == fname:
                        gone = True
                    if later['kind'] == 'RenameField' and later['old'] == fname:
                        fname = later['new']
                    if later['kind'] == 'DeleteModel':
                        gone = True
                    # ... or that a later ChangeField of the same evolution makes
                    # nullable again (folded into the AddField/ChangeField by the
                    # documented optimisation: the column never is NOT NULL)
                    if later['kind'] == 'ChangeField' and later['name'] == fname and \
                            later['attrs'].get('null') is True:
                        gone = True
            if nonnull and gone:
                return seq, k + ':nonnull_then_deleted'
            return seq, k + (':nonnull' if nonnull else ':nullable')
        return None, 'no initial'
    if k == 'retarget_model':
        if 'model' not in m:
            return None, 'no model arg'
        others = [n2 for a, n2, _m in S.iter_models(spec0) if a == m['app'] and n2 != m['model']]
        if not others:
            return None, 'no other model'
        m['model'] = others[p['pick'] % len(others)]
        return seq, k
    if k == 'delete_pk':
        # the primary key of a model this evolution changes (so the mutation is not filtered
        # out as belonging to an unchanged model) ...
        touched = [x.get('model') for x in seq if x.get('model') and x['kind'] != 'DeleteModel'
                   and S.get_model(spec0, x['app'], x['model']) is not None]
        if touched:
            seq.insert(i, {'kind': 'DeleteField', 'app': m['app'], 'model': touched[0],
                           'name': 'id'})
            return seq, k
        # ... or, failing that, of any model of the app
        for a, n2, _m in S.iter_models(spec0):
            if a == m['app']:
                seq.insert(i, {'kind': 'DeleteField', 'app': m['app'], 'model': n2, 'name': 'id'})
                return seq, k + ':unchanged_model'
        return None, 'no model'
    return None, 'unknown'


def snapshot(dump):
    return c07.state_of({'default': dump})


def check(case):
    from .. import findings as F
    from .. import inproc
    from ..run import sha
    out = {'labels': [], 'atoms': [], 'nontrivial': False}
    atoms = out['atoms']
    h = case['history']
    try:
        vers = H.versions(h)
    except (R.RefInvalid, KeyError, TypeError, AttributeError):
        out['rejected'] = 'ref_invalid'
        return out
    if len(vers) < 2 or any(s_['type'] != 'evolve' for s_ in h['steps']):
        out['rejected'] = 'not_evolve_steps'
        return out
    step = h['steps'][0]
    fl, _t = F.c03_flags({'mode': 'walk', 'spec': vers[0]['spec'],
                          'seq': copy.deepcopy(H.pending_sequence(h, 0)), 'cuts': []}, {})
    if any(fl.values()):
        out['rejected'] = 'c03_flags'
        return out
    pseq, label = perturb(step['seq'], vers[0]['spec'], case['perturb'])
    if pseq is None:
        out['rejected'] = 'perturbation_not_applicable'
        return out
    out['labels'].append('perturb:' + label)
    out['labels'].append('steps:%d' % len(h['steps']))
    if len({s_['app'] for s_ in h['steps']}) > 1:
        out['labels'].append('second_app_has_valid_evolution')
    changed = json.dumps(pseq, sort_keys=True) != json.dumps(step['seq'], sort_keys=True)
    last = len(vers) - 1
    v1p = copy.deepcopy(vers[last])
    v1p['evolutions'][step['app']][0]['mutations'] = pseq
    if label == 'nonnull_type_change':
        # the models are what that evolution describes (so no residual difference remains)
        try:
            # (the reference model itself refuses null=False without an initial, so the
            # target is built by giving the mutation a dummy initial)
            with_init = [dict(m_, initial=1) for m_ in pseq]
            tgt = R.apply_all(copy.deepcopy(vers[0]['spec']), with_init, strict=True)
            tgt = R.apply_all(tgt, H.pending_sequence(h, 1), strict=True)
        except (R.RefInvalid, KeyError, TypeError, AttributeError):
            out['rejected'] = 'perturbation_not_applicable'
            return out
        v1p['spec'] = tgt
        vers = vers[:last] + [dict(vers[last], spec=tgt)]
    if len({s_['app'] for s_ in h['steps']}) > 1 and not case.get('keep_deps'):
        # the two apps' evolutions are independent field-level changes: no dependency declared
        # (keep_deps: the second app's evolution declares AFTER_EVOLUTIONS on the first one's)
        v1p['deps'] = {}
        vers = [dict(v, deps={}) for v in vers]
    if case.get('keep_deps'):
        out['labels'].append('cross_app_dependency_declared')
    with P.Scratch('c12_') as sc:
        dirs = H.write_versions(sc, [vers[0], v1p, vers[last]])
        db = sc.sub('db.sqlite3')
        res = P.run_driver(dirs[0], db, {'steps': [
            c04.upgrade_step('api'),
            {'op': 'insert_rows', 'spec': vers[0]['spec'], 'rows': case['rows'],
             'links': case['links']}]})
        if c04.run_failed('install', res, []):
            out['rejected'] = 'install_failed'
            return out
        before = snapshot(res['dumps']['default'])
        up = P.run_driver(dirs[1], db, {'steps': [c04.upgrade_step('evolve_cmd')]})
        if up.get('driver_error'):
            atoms.append(['driver_error', up['driver_error'][-300:]])
            return out
        s = up['steps'][0]
        after = snapshot(up['dumps']['default'])
        touched = s['n_change'] > 0
        if not s['ok']:
            out['labels'].append('rejected_by_tool')
            e = s['exc']
            if not e['is_command_error']:
                atoms.append(['rejected_without_command_error', e['type'], e.get('where')])
            if touched:
                chg = [t[2][:70] for t in s['trace'] if t[0] == 'sql' and inproc.is_change(t[2])]
                atoms.append(['rejected_but_executed_sql', e['type'], chg[:2]])
            d = c07.diff_tables(before, after)
            if d:
                atoms.append(['rejected_but_state_changed', sorted({x[0] for x in d})])
            out['nontrivial'] = True
        else:
            out['labels'].append('accepted_by_tool')
            if label in MUST_REJECT:
                atoms.append(['accepted_but_must_be_rejected', label])
            fresh_db = sc.sub('fresh.sqlite3')
            fr = P.run_driver(dirs[2], fresh_db, {'steps': [c04.upgrade_step('api')]})
            if c04.run_failed('fresh', fr, []):
                out['rejected'] = 'fresh_failed'
                return out
            named = S.used_names(vers[last]['spec'])
            for t, kind, detail, side in dbnorm.compare(
                    dbnorm.from_jsonable(up['dumps']['default']['norm']),
                    dbnorm.from_jsonable(fr['dumps']['default']['norm']), named):
                atoms.append(['accepted_but_schema_differs', t, kind, dbnorm.jsonable(detail), side])
            sc_ = up['dumps']['default'].get('sig_check') or {}
            if sc_.get('error') or not sc_.get('diff_sc_empty') or not sc_.get('diff_cs_empty'):
                atoms.append(['accepted_but_signature_differs',
                              (sc_.get('diff_text') or sc_.get('error') or '')[:160]])
            out['nontrivial'] = changed
    out['nontrivial_keys'] = [sha([h, case['perturb']])]
    from .. import render
    out['sample'] = {'perturbation': label, 'original': [render.describe(m) for m in step['seq']],
                     'perturbed': [render.describe(m) for m in pseq],
                     'outcome': 'rejected' if 'rejected_by_tool' in out['labels'] else 'accepted'}
    return out


def atom_bucket(atom):
    if atom[0] in ('rejected_without_command_error', 'rejected_but_executed_sql'):
        return '%s:%s' % (atom[0], atom[1])
    if atom[0] == 'accepted_but_schema_differs':
        return '%s:%s:%s' % (atom[0], atom[2], atom[4])
    return atom[0]


def candidates(case):
    for c in H.history_candidates(case):
        yield c
