"""C13 - hinted evolution text is loadable and means what the hint meant."""
import copy
import json

from hypothesis import strategies as st

from .. import evolvecase as EC
from .. import shrink as SH
from .. import specs as S
from .. import mutgen
from .. import refmodel as R
from .. import values as V
from . import c05

ID = 'C13'
LEVEL = 'exploration'
RULE = ('(a) hinted: for generated (old, new) model-set pairs (the C05 edit space incl. several '
        'models changing Meta at once) the mutation lists of Diff.evolution() are rendered by '
        'EvolveAppTask.get_evolution_content(); (b) direct: AddField / ChangeField / ChangeMeta / '
        'RenameField / RenameModel / DeleteModel built with attribute values from a grammar '
        '(strings with quotes, backslashes, unicode; ints, bools, None, floats; nested lists / '
        'tuples / dicts; field classes; Q trees with AND/OR/XOR, negation, single-child '
        'nesting, empty Q; F, Value, combined expressions, OrderBy, Lower; Deferrable). The text '
        'is compile()d and exec()d in a fresh namespace (what importing the evolution module '
        'does): MUTATIONS must have the same length, equal str(), equal simulated signature, '
        'deep-equal attribute values, and identical generated SQL; a placeholder must make the '
        'text refuse to load and, once replaced by a literal, load and agree. Non-trivial: the '
        'text contains a non-primitive value or a non-ASCII/quoted string; distinct = SHA-1 of '
        'the case.')
ASSUMPTIONS = [
    'loading = compile + exec of the module text in a fresh namespace',
    'SQL equality is judged where the original mutations themselves lower to SQL without error',
]
MIN_EVALUATIONS = {'quick': 300, 'thorough': 20000}


def setup_worker():
    from .. import env
    env.setup()


@st.composite
def direct_mutations(draw):
    """Data forms of directly constructed mutations over model pa.Tag(a, b, c)."""
    out = []
    n = draw(st.integers(1, 3))
    for i in range(n):
        kind = draw(st.sampled_from(['AddField', 'ChangeField', 'ChangeMeta', 'ChangeMeta',
                                     'RenameField', 'RenameModel', 'DeleteModel', 'DeleteField']))
        if kind == 'AddField':
            fk = draw(st.sampled_from(['CharField', 'IntegerField', 'BooleanField', 'TextField',
                                       'DecimalField', 'ForeignKey', 'ManyToManyField']))
            attrs = {}
            if fk == 'CharField':
                attrs['max_length'] = {'t': 'int', 'v': 20}
            if fk == 'DecimalField':
                attrs['max_digits'] = {'t': 'int', 'v': 8}
                attrs['decimal_places'] = {'t': 'int', 'v': 2}
            if fk in ('ForeignKey', 'ManyToManyField'):
                attrs['related_model'] = {'t': 'str', 'v': 'pa.Other'}
            if draw(st.booleans()):
                attrs['null'] = {'t': 'bool', 'v': draw(st.booleans())}
            if draw(st.booleans()):
                attrs['db_column'] = {'t': 'str', 'v': draw(st.sampled_from(V.STRINGS[1:]))}
            if draw(st.booleans()):
                attrs['db_index'] = {'t': 'bool', 'v': draw(st.booleans())}
            initial = None
            if fk not in ('ManyToManyField',):
                initial = draw(st.one_of(V.prims(), st.just(None)))
            out.append({'kind': 'AddField', 'field': 'n%d' % i, 'field_type': fk, 'attrs': attrs,
                        'initial': initial})
        elif kind == 'ChangeField':
            attrs = {}
            for a in draw(st.lists(st.sampled_from(['null', 'db_index', 'unique', 'max_length',
                                                    'db_column']), min_size=1, max_size=3,
                                   unique=True)):
                if a in ('null', 'db_index', 'unique'):
                    attrs[a] = {'t': 'bool', 'v': draw(st.booleans())}
                elif a == 'max_length':
                    attrs[a] = {'t': 'int', 'v': draw(st.sampled_from([10, 255]))}
                else:
                    attrs[a] = {'t': 'str', 'v': draw(st.sampled_from(V.STRINGS[1:]))}
            ft = draw(st.sampled_from([None, None, 'TextField', 'BigIntegerField']))
            out.append({'kind': 'ChangeField', 'field': draw(st.sampled_from(['a', 'b', 'c'])),
                        'field_type': ft, 'attrs': attrs,
                        'initial': draw(st.one_of(V.prims(), st.just(None)))})
        elif kind == 'ChangeMeta':
            prop = draw(st.sampled_from(['indexes', 'constraints', 'unique_together',
                                         'index_together']))
            if prop in ('unique_together', 'index_together'):
                val = {'t': 'list', 'v': [{'t': draw(st.sampled_from(['tuple', 'list'])),
                                           'v': [{'t': 'str', 'v': 'a'}, {'t': 'str', 'v': 'b'}]}]}
                out.append({'kind': 'ChangeMeta', 'prop': prop, 'value': val})
            elif prop == 'indexes':
                items = []
                for j in range(draw(st.integers(1, 2))):
                    d = [['name', {'t': 'str', 'v': 'ix%d_%d' % (i, j)}]]
                    if draw(st.booleans()):
                        d.append(['fields', {'t': 'list', 'v': [{'t': 'str', 'v': 'a'},
                                                               {'t': 'str', 'v': '-b'}]}])
                    else:
                        d.append(['expressions', {'t': 'list',
                                                  'v': draw(st.lists(V.expr_values(2), min_size=1,
                                                                     max_size=2))}])
                    if draw(st.booleans()):
                        d.append(['condition', draw(V.q_values(3))])
                    if draw(st.integers(0, 3)) == 0:
                        d.append(['db_tablespace', {'t': 'str',
                                                    'v': draw(st.sampled_from(V.STRINGS[1:]))}])
                    items.append({'t': 'dict', 'v': d})
                out.append({'kind': 'ChangeMeta', 'prop': 'indexes',
                            'value': {'t': 'list', 'v': items}})
            else:
                items = []
                for j in range(draw(st.integers(1, 2))):
                    if draw(st.booleans()):
                        d = [['type', {'t': 'cls', 'v': 'CheckConstraint'}],
                             ['name', {'t': 'str', 'v': 'ck%d_%d' % (i, j)}],
                             ['check', draw(V.q_values(3))]]
                    else:
                        d = [['type', {'t': 'cls', 'v': 'UniqueConstraint'}],
                             ['name', {'t': 'str', 'v': 'uq%d_%d' % (i, j)}],
                             ['fields', {'t': draw(st.sampled_from(['tuple', 'list'])),
                                         'v': [{'t': 'str', 'v': 'a'}]}]]
                        w = draw(st.sampled_from(['plain', 'condition', 'deferrable']))
                        if w == 'condition':
                            d.append(['condition', draw(V.q_values(2))])
                        elif w == 'deferrable':
                            d.append(['deferrable', {'t': 'deferrable',
                                                     'v': draw(st.sampled_from(['DEFERRED',
                                                                                'IMMEDIATE']))}])
                    items.append({'t': 'dict', 'v': d})
                out.append({'kind': 'ChangeMeta', 'prop': 'constraints',
                            'value': {'t': 'list', 'v': items}})
        elif kind == 'RenameField':
            out.append({'kind': 'RenameField', 'old': draw(st.sampled_from(['a', 'b'])),
                        'new': 'r%d' % i,
                        'db_column': draw(st.sampled_from([None, 'col', 'q"uo\'te', 'é']))})
        elif kind == 'RenameModel':
            out.append({'kind': 'RenameModel', 'new': 'Tag%d' % i,
                        'db_table': draw(st.sampled_from(['pa_tag', 'tb"l', "it's"]))})
        elif kind == 'DeleteModel':
            out.append({'kind': 'DeleteModel'})
        else:
            out.append({'kind': 'DeleteField', 'field': draw(st.sampled_from(['a', 'b', 'c']))})
    return out


@st.composite
def cases(draw, stratum):
    if stratum == 'direct':
        return {'mode': 'direct', 'muts': draw(direct_mutations())}
    c = draw(c05.cases('meta_multi' if stratum == 'meta_multi' else 'main'))
    return {'mode': 'hinted', 'spec': c['spec'], 'seq': c['seq']}


def jobs(tier, scale=1.0):
    per = int((250 if tier == 'quick' else 20000) * scale)
    strata = ['direct', 'hinted', 'direct', 'meta_multi']
    return [{'kind': 'hyp', 'stratum': strata[i % 4], 'shard': i, 'examples': per}
            for i in range(16)]


def run_job(job, seed, rec, tier):
    from .. import run as RUN
    setup_worker()
    if job['kind'] == 'replay':
        with open(job['file']) as fh:
            doc = json.load(fh)
        case = doc.get('case', doc)
        rec.record(case, check(case))
        return
    RUN.hyp_job(cases(job['stratum']), check, job['examples'], seed, rec,
                max_seconds=(100 if tier == 'quick' else 3000))


def build_direct(m):
    from django.db import models
    from django_evolution import mutations as M
    k = m['kind']
    if k == 'AddField':
        kw = dict((a, V.build(v)) for a, v in m['attrs'].items())
        if m.get('initial') is not None:
            kw['initial'] = V.build(m['initial'])
        return M.AddField('Tag', m['field'], getattr(models, m['field_type']), **kw)
    if k == 'ChangeField':
        kw = dict((a, V.build(v)) for a, v in m['attrs'].items())
        if m.get('field_type'):
            kw['field_type'] = getattr(models, m['field_type'])
        if m.get('initial') is not None:
            kw['initial'] = V.build(m['initial'])
        return M.ChangeField('Tag', m['field'], **kw)
    if k == 'ChangeMeta':
        return M.ChangeMeta('Tag', m['prop'], V.build(m['value']))
    if k == 'RenameField':
        kw = {}
        if m.get('db_column'):
            kw['db_column'] = m['db_column']
        return M.RenameField('Tag', m['old'], m['new'], **kw)
    if k == 'RenameModel':
        return M.RenameModel('Tag', m['new'], db_table=m['db_table'])
    if k == 'DeleteModel':
        return M.DeleteModel('Tag')
    if k == 'DeleteField':
        return M.DeleteField('Tag', m['field'])
    raise ValueError(k)


def content_for(app_label, mutations):
    """EvolveAppTask.get_evolution_content() with the mutation list installed as
    the task's prepared mutations."""
    from django_evolution.compat.apps import get_app
    from django_evolution.evolve import EvolveAppTask
    task = EvolveAppTask.__new__(EvolveAppTask)
    task.app = get_app(app_label)
    task.app_label = app_label
    task._mutations = list(mutations)
    return task.get_evolution_content()


def load_text(text):
    code = compile(text, '<evolution>', 'exec')
    ns = {'__name__': 'loaded_evolution'}
    exec(code, ns)
    return ns['MUTATIONS']


def mutation_attrs(m):
    d = {}
    for k, v in vars(m).items():
        d[k] = v
    return d


def attrs_equal(a, b):
    da, db = mutation_attrs(a), mutation_attrs(b)
    if sorted(da) != sorted(db):
        return 'attr names'
    for k in da:
        x, y = da[k], db[k]
        if k in ('initial',) and callable(x) and callable(y):
            continue
        if not V.deep_equal(x, y):
            # containers: allow tuple/list equivalence only where the hint documents it
            if k in ('new_value',) and isinstance(x, (list, tuple)) and \
                    V.deep_equal(_listify(x), _listify(y)):
                continue
            return k
    return None


def _listify(v):
    if isinstance(v, (list, tuple)):
        return [_listify(x) for x in v]
    if isinstance(v, dict):
        return dict((k, _listify(x)) for k, x in v.items())
    return v


def simulate_all(sig, app, muts):
    from django_evolution.db.state import DatabaseState
    sig = sig.clone()
    state = DatabaseState('default', scan=False)
    for m in muts:
        m.run_simulation(app_label=app, project_sig=sig, database_state=state, database='default')
    return sig


def sql_for(sig, app, muts):
    from .. import inproc
    from django_evolution.utils.sql import SQLExecutor
    mutator, sql = inproc.make_sql(sig.clone(), app, muts)
    with SQLExecutor('default', check_constraints=False) as ex:
        return ex.run_sql(sql, capture=True, execute=False)


def judge(app, sig, original, atoms, labels, have_db):
    from django_evolution.placeholders import BasePlaceholder
    try:
        text = content_for(app, original)
    except Exception as e:
        atoms.append(['render_failed', type(e).__name__, EC.exception_atom(e, 'render')[3],
                      str(e)[:120]])
        return None
    if text is None:
        return None
    has_placeholder = any(isinstance(getattr(m, 'initial', None), BasePlaceholder)
                          for m in original)
    if has_placeholder:
        labels.append('placeholder')
        if '<<USER VALUE REQUIRED>>' not in text:
            atoms.append(['placeholder_not_rendered'])
        try:
            load_text(text)
            atoms.append(['placeholder_text_loaded'])
        except SyntaxError:
            pass
        except Exception as e:
            atoms.append(['placeholder_other_error', type(e).__name__])
        text = text.replace('<<USER VALUE REQUIRED>>', '7')
        for m in original:
            if isinstance(getattr(m, 'initial', None), BasePlaceholder):
                m.initial = 7
    try:
        loaded = load_text(text)
    except Exception as e:
        atoms.append(['load_failed', type(e).__name__, str(e)[:120]])
        return text
    if len(loaded) != len(original):
        atoms.append(['length_differs', len(original), len(loaded)])
        return text
    for i, (a, b) in enumerate(zip(original, loaded)):
        if type(a) is not type(b):
            atoms.append(['type_differs', type(a).__name__, type(b).__name__])
            continue
        try:
            sa, sb = str(a), str(b)
            if sa != sb:
                atoms.append(['str_differs', type(a).__name__, sa[:150], sb[:150]])
        except Exception as e:
            atoms.append(['str_failed', type(e).__name__])
        bad = attrs_equal(a, b)
        if bad:
            atoms.append(['value_differs', type(a).__name__, bad])
    # same signature change
    try:
        s1 = simulate_all(sig, app, original)
    except Exception as e:
        s1 = None
        labels.append('original_not_simulable')
    if s1 is not None:
        try:
            s2 = simulate_all(sig, app, loaded)
            d1, _t = c05.diff_empty(s1, s2)
            d2, _t = c05.diff_empty(s2, s1)
            if not (s1 == s2) or not d1 or not d2:
                atoms.append(['simulated_signature_differs', c05.where_unequal(s1, s2)])
        except Exception as e:
            atoms.append(['loaded_not_simulable', type(e).__name__, str(e)[:120]])
    # same SQL
    if have_db:
        try:
            q1 = sql_for(sig, app, original)
        except Exception:
            q1 = None
            labels.append('original_sql_fails')
        if q1 is not None:
            try:
                q2 = sql_for(sig, app, loaded)
                if [str(x) for x in q1] != [str(x) for x in q2]:
                    atoms.append(['sql_differs'])
            except Exception as e:
                atoms.append(['loaded_sql_fails', type(e).__name__, str(e)[:120]])
    return text


def check(case):
    from .. import env, inproc, render
    env.setup()
    from django_evolution.diff import Diff
    out = {'labels': ['mode:' + case['mode']], 'atoms': [], 'nontrivial': False}
    atoms, labels = out['atoms'], out['labels']
    texts = []
    if case['mode'] == 'direct':
        spec = S.new_project()
        S.add_model(spec, 'pa', S.new_model('Other', [S.new_field('x', 'Integer')]))
        S.add_model(spec, 'pa', S.new_model('Tag', [S.new_field('a', 'Char', max_length=10),
                                                    S.new_field('b', 'Integer', null=True),
                                                    S.new_field('c', 'Integer')]))
        mutgen.ensure_uids(spec)
        model_map, sig = inproc.start_case(spec)
        try:
            muts = [build_direct(m) for m in case['muts']]
        except Exception as e:
            out['rejected'] = 'build_failed:%s' % type(e).__name__
            return out
        for m in case['muts']:
            labels.append('mut:' + m['kind'] + (':' + m['prop'] if m['kind'] == 'ChangeMeta' else ''))
        t = judge('pa', sig, muts, atoms, labels, have_db=True)
        texts.append(t)
        nonprim = V.contains(case['muts'], ('q', 'f', 'value', 'combined', 'orderby', 'lower',
                                            'deferrable', 'cls', 'tuple', 'dict'))
    else:
        spec = mutgen.ensure_uids(copy.deepcopy(case['spec']))
        seq = mutgen.ensure_seq_uids(case['seq'])
        try:
            R.validate(spec)
            final = R.apply_all(spec, seq, strict=True)
        except (R.RefInvalid, KeyError, TypeError, AttributeError):
            out['rejected'] = 'ref_invalid'
            return out
        model_map, sig = inproc.start_case(spec)
        new_map = inproc.register_global(final)
        new = render.project_sig(new_map, apps=sorted(final['apps']))
        try:
            hinted = Diff(sig, new).evolution()
        except Exception as e:
            out['rejected'] = 'hint_failed'
            return out
        for app, muts in hinted.items():
            for m in muts:
                labels.append('hint:' + type(m).__name__)
            t = judge(app, sig, list(muts), atoms, labels, have_db=True)
            texts.append(t)
        nonprim = True
    joined = '\n'.join(t for t in texts if t)
    out['nontrivial'] = bool(joined) and (nonprim or any(ord(ch) > 127 for ch in joined) or
                                         '\\' in joined)
    from ..run import sha
    out['nontrivial_keys'] = [sha(case)]
    out['sample'] = {'mode': case['mode'], 'text': joined[:1500]}
    return out


def atom_bucket(atom):
    if atom[0] in ('render_failed',):
        return 'render_failed:%s:%s' % (atom[1], atom[2])
    if atom[0] in ('load_failed', 'loaded_not_simulable', 'loaded_sql_fails'):
        return '%s:%s:%s' % (atom[0], atom[1], str(atom[2])[:40])
    if atom[0] in ('str_differs', 'value_differs'):
        return '%s:%s:%s' % (atom[0], atom[1], atom[2] if atom[0] == 'value_differs' else '')
    return str(atom[0])


def candidates(case):
    if case['mode'] == 'direct':
        for i in reversed(range(len(case['muts']))):
            c = copy.deepcopy(case)
            del c['muts'][i]
            if c['muts']:
                yield c
        for i, m in enumerate(case['muts']):
            for a in list(m.get('attrs') or {}):
                c = copy.deepcopy(case)
                del c['muts'][i]['attrs'][a]
                yield c
            if m.get('initial') is not None:
                c = copy.deepcopy(case)
                c['muts'][i]['initial'] = None
                yield c
            if m['kind'] == 'ChangeMeta' and m['value']['t'] == 'list':
                for j in reversed(range(len(m['value']['v']))):
                    c = copy.deepcopy(case)
                    del c['muts'][i]['value']['v'][j]
                    yield c
                for j, item in enumerate(m['value']['v']):
                    if item.get('t') == 'dict':
                        for k in reversed(range(len(item['v']))):
                            if item['v'][k][0] in ('name', 'type', 'fields', 'check'):
                                continue
                            c = copy.deepcopy(case)
                            del c['muts'][i]['value']['v'][j]['v'][k]
                            yield c
        return
    for c in SH.spec_seq_candidates(case):
        yield c
