"""C14 - the SQL preview is exactly what an execution would run; output is a
deterministic function of the inputs (hash-seed independent)."""
import copy
import json
import re
import shutil

from hypothesis import strategies as st

from .. import evolvecase as EC
from .. import history as H
from .. import project as P
from .. import specs as S
from .. import refmodel as R
from . import c04

ID = 'C14'
LEVEL = 'exploration'
RULE = ('Pending upgrades V0->Vn from generated histories (1-3 steps over one or two apps, incl. '
        'interleaved steps so that one app\'s labels are split over batches by AFTER_EVOLUTIONS, '
        'and a stratum whose evolutions change several unique_together / index_together groups '
        'at once), with rows in place. On copies of the same database, in fresh processes: '
        'evolve --sql under PYTHONHASHSEED in {0,1,2,3} (thorough: 8 seeds), evolve --hint '
        '(project variant without the evolution files) under the same seeds, evolve --execute '
        '--noinput under two seeds with a statement trace. Oracle: (1) --sql and --hint output '
        'and the executed evolution statements are identical for all seeds; (2) per app, the '
        'previewed statements equal, in order, the changing statements executed between that '
        'app\'s applying_evolution/applied_evolution signals, with parameters rendered by the '
        'harness\'s own SQL-literal renderer. Non-trivial: the preview has >=2 statements for '
        'some app; distinct = SHA-1 of the history.')
ASSUMPTIONS = [
    'hash seeds are sampled (4 in quick, 8 in thorough of 2^32): a two-element order dependence '
    'is missed with probability 2^-3 / 2^-7',
    'model-creation SQL and bookkeeping writes are outside "the same evolutions" and are not '
    'compared; the order of app sections is not compared',
]
MIN_EVALUATIONS = {'quick': 20, 'thorough': 400}
SHRINK_CHECKS = 20


@st.composite
def cases(draw, stratum):
    feats = S.Features(meta=(stratum == 'together'), positive=False, checks=False,
                       conditions=False, unnamed_indexes=False)
    if stratum == 'together':
        # several *_together groups change in one evolution
        spec = None
        for _ in range(5):
            spec = draw(S.project_specs(S.Features(meta=False, positive=False, two_apps=False,
                                                   max_models=1, max_fields=4, relations=False)))
            m = list(S.iter_models(spec))[0][2]
            cols = [f['name'] for f in m['fields'] if f['kind'] not in ('Boolean',)]
            if len(cols) >= 3:
                break
        from .. import mutgen
        spec = mutgen.ensure_uids(spec)
        a, n, m = list(S.iter_models(spec))[0]
        cols = [f['name'] for f in m['fields'] if f['kind'] not in ('Boolean', 'ManyToMany')]
        if len(cols) < 3:
            return {'history': {'v0': spec, 'steps': []}, 'rows': {}, 'links': {}, 'stratum': stratum}
        prop = draw(st.sampled_from(['unique_together', 'index_together']))
        groups = []
        for i in range(len(cols)):
            for j in range(i + 1, len(cols)):
                groups.append([cols[i], cols[j]])
        chosen = draw(st.lists(st.sampled_from(groups), min_size=2, max_size=4,
                               unique_by=lambda g: tuple(g)))
        step = {'type': 'evolve', 'app': a, 'label': 'e1',
                'seq': [{'kind': 'ChangeMeta', 'app': a, 'model': n, 'prop': prop, 'value': chosen}]}
        steps = [step]
        if draw(st.booleans()):
            steps.append({'type': 'evolve', 'app': a, 'label': 'e2',
                          'seq': [{'kind': 'ChangeMeta', 'app': a, 'model': n, 'prop': prop,
                                   'value': []}]})
            steps = steps[:1] if draw(st.booleans()) else steps
        return {'history': {'v0': spec, 'steps': steps}, 'rows': {}, 'links': {},
                'stratum': stratum, 'start': draw(st.integers(0, len(steps) - 1))}
    if stratum == 'barrier':
        # AddField, then a data back-fill (SQLMutation), then a ChangeField of the same
        # field: the optimiser cannot fold them, and the SQL is generated twice from the same
        # mutation objects (prepare, then per batch)
        from .. import mutgen
        spec = mutgen.ensure_uids(draw(S.project_specs(
            S.Features(meta=False, positive=False, two_apps=False, max_models=2, relations=False))))
        a, n, m = list(S.iter_models(spec))[0]
        kind = draw(st.sampled_from(['Char', 'Integer', 'Decimal']))
        f = S.new_field('zz', kind, null=draw(st.booleans()), uid='c14.zz')
        init = {'Char': 'x', 'Integer': 1, 'Decimal': {'decimal': '1.5'}}[kind] \
            if not f['null'] or draw(st.booleans()) else None
        if kind == 'Char':
            chg = {'max_length': 50}
        elif kind == 'Decimal':
            chg = {'max_digits': 12, 'decimal_places': 3}
        else:
            chg = {'db_index': True}
        if draw(st.booleans()):
            chg['null'] = True
        muts = [{'kind': 'AddField', 'app': a, 'model': n, 'field': f, 'initial': init},
                {'kind': 'SQLMutation', 'app': a, 'tag': 'backfill'},
                {'kind': 'ChangeField', 'app': a, 'model': n, 'name': 'zz', 'attrs': chg,
                 'field_kind': None, 'initial': None}]
        if f['null'] is False and chg.get('null'):
            pass
        if draw(st.booleans()):
            steps = [{'type': 'evolve', 'app': a, 'label': 'e%d' % (i + 1), 'seq': [mm]}
                     for i, mm in enumerate(muts)]
        else:
            steps = [{'type': 'evolve', 'app': a, 'label': 'e1', 'seq': muts}]
        return {'history': {'v0': spec, 'steps': steps}, 'rows': {}, 'links': {},
                'stratum': stratum}
    if stratum == 'multi_delete':
        # several fields (plain columns and many-to-many) of one model disappear at once
        from .. import mutgen
        spec = None
        for _ in range(5):
            spec = mutgen.ensure_uids(draw(S.project_specs(
                S.Features(meta=False, positive=False, two_apps=False, max_models=2,
                           max_fields=4))))
            a, n, m = list(S.iter_models(spec))[0]
            if len(m['fields']) >= 3:
                break
        a, n, m = list(S.iter_models(spec))[0]
        names = [f['name'] for f in m['fields']]
        if len(names) < 2:
            return {'history': {'v0': spec, 'steps': []}, 'rows': {}, 'links': {}, 'stratum': stratum}
        gone = draw(st.lists(st.sampled_from(names), min_size=2, max_size=len(names), unique=True))
        seq = [{'kind': 'DeleteField', 'app': a, 'model': n, 'name': x} for x in gone]
        return {'history': {'v0': spec, 'steps': [{'type': 'evolve', 'app': a, 'label': 'e1',
                                                   'seq': seq}]},
                'rows': {}, 'links': {}, 'stratum': stratum}
    if stratum == 'split':
        h = None
        for _ in range(4):
            h = draw(H.histories(feats, max_steps=3, min_steps=3, allow_new_app=False,
                                 allow_new_model=False))
            apps_ = [s_['app'] for s_ in h['steps']]
            if len(apps_) == 3 and apps_[0] == apps_[2] != apps_[1]:
                break
    else:
        h = draw(H.histories(feats, max_steps=3, min_steps=1, allow_new_app=False))
    vers = H.versions(h)
    seq = H.pending_sequence(h, 0)
    rows, links = draw(EC.rows_for(H.reference_start(h, vers, 0), seq, 2))
    rows = {k: v for k, v in rows.items()
            if any(m['uid'] == k for _a, _n, m in S.iter_models(vers[0]['spec']))}
    links = {k: v for k, v in links.items()
             if any(f['uid'] == k for _a, _n, m in S.iter_models(vers[0]['spec'])
                    for f in m['fields'])}
    return {'history': h, 'rows': rows, 'links': links, 'stratum': stratum}


def jobs(tier, scale=1.0):
    per = max(1, int((3 if tier == 'quick' else 50) * scale))
    strata = ['main', 'together', 'barrier', 'multi_delete', 'split', 'main', 'together', 'barrier']
    return [{'kind': 'hyp', 'stratum': strata[i % 8], 'shard': i, 'examples': per, 'tier': tier}
            for i in range(16)]


def run_job(job, seed, rec, tier):
    from .. import run as RUN
    if job['kind'] == 'replay':
        with open(job['file']) as fh:
            doc = json.load(fh)
        case = doc.get('case', doc)
        rec.record(case, check(case, tier))
        return
    RUN.hyp_job(cases(job['stratum']), lambda c: check(c, tier), job['examples'], seed, rec,
                max_seconds=(150 if tier == 'quick' else 3000))


def literal(v):
    """Standard SQL literal of a bound parameter (the harness's own renderer)."""
    if v is None:
        return 'NULL'
    if isinstance(v, bool):
        return '1' if v else '0'
    if isinstance(v, (int, float)):
        return repr(v)
    return "'%s'" % str(v).replace("'", "''")


def render(sql, params):
    if not params:
        return sql.strip()
    parts = sql.split('%s')
    if len(parts) != len(params) + 1:
        return sql.strip() + ' -- params %r' % (params,)
    out = parts[0]
    for p, rest in zip(params, parts[1:]):
        out += literal(p) + rest
    return out.strip()


def parse_preview(text):
    """{app: [statement...]} from `evolve --sql` output."""
    out = {}
    cur = None
    for line in text.split('\n'):
        line = line.rstrip()
        m = re.match(r'^-- Evolve application "(.+)"$', line)
        if m:
            cur = m.group(1)
            out.setdefault(cur, [])
            continue
        if not line or line.startswith('--'):
            continue
        if cur is not None:
            out[cur].append(line.strip())
    return out


def executed_by_app(step):
    from .. import inproc
    out = {}
    cur = None
    for t in step['trace']:
        if t[0] == 'signal' and t[1] == 'applying_evolution':
            cur = t[2].get('app')
            out.setdefault(cur, [])
        elif t[0] == 'signal' and t[1] == 'applied_evolution':
            cur = None
        elif t[0] == 'sql' and cur is not None:
            head = t[2].lstrip().upper()
            if head.startswith(('BEGIN', 'COMMIT', 'SAVEPOINT', 'RELEASE', 'ROLLBACK',
                                'PRAGMA FOREIGN_KEYS')):
                continue            # transaction control of the executor, not evolution SQL
            out[cur].append(render(t[2], t[3]))
    return out


def check(case, tier='quick'):
    from ..run import sha
    out = {'labels': ['stratum:' + case.get('stratum', '?')], 'atoms': [], 'nontrivial': False}
    atoms = out['atoms']
    h = case['history']
    try:
        vers = H.versions(h)
    except (R.RefInvalid, KeyError, TypeError, AttributeError):
        out['rejected'] = 'ref_invalid'
        return out
    n = len(vers) - 1
    if n < 1:
        out['rejected'] = 'empty_history'
        return out
    start = min(case.get('start', 0), n - 1)
    seeds = ['0', '1', '2', '3'] if tier == 'quick' else ['0', '1', '2', '3', '4', '5', '6', '7']
    apps_evolving = [s_['app'] for s_ in h['steps'][start:] if s_['type'] == 'evolve']
    if len(apps_evolving) >= 3 and apps_evolving[0] == apps_evolving[2] != apps_evolving[1]:
        out['labels'].append('labels_split_over_batches')
    with P.Scratch('c14_') as sc:
        # the hint variant: models of Vn, evolution files as of Vstart
        hint_v = copy.deepcopy(vers[n])
        hint_v['evolutions'] = copy.deepcopy(vers[start]['evolutions'])
        hint_v['deps'] = copy.deepcopy(vers[start].get('deps') or {})
        dirs = H.write_versions(sc, [vers[start], vers[n], hint_v])
        base = sc.sub('base.sqlite3')
        res = P.run_driver(dirs[0], base, {'steps': [
            c04.upgrade_step('api'),
            {'op': 'insert_rows', 'spec': vers[start]['spec'], 'rows': case['rows'] if start == 0 else {},
             'links': case['links'] if start == 0 else {}}]})
        if c04.run_failed('install', res, []):
            out['rejected'] = 'install_failed'
            return out

        def run(dirname, step, seed, tag):
            db = sc.sub('%s_%s.sqlite3' % (tag, seed))
            shutil.copy(base, db)
            return P.run_driver(dirname, db, {'steps': [step], 'dump': []}, hashseed=seed)

        sql_out = {}
        for s in seeds:
            r = run(dirs[1], {'op': 'command', 'name': 'evolve', 'kwargs': {'compile_sql': True}},
                    s, 'sql')
            if r.get('driver_error') or not r['steps'][0]['ok']:
                out['rejected'] = 'preview_failed'
                out['error'] = (r.get('driver_error') or r['steps'][0]['exc']['msg'])[:200]
                return out
            sql_out[s] = r['steps'][0]['stdout']
        if len(set(sql_out.values())) > 1:
            a, b = sorted(set(sql_out.values()))[:2]
            atoms.append(['sql_preview_differs_across_hash_seeds', first_difference(a, b)])
        hint_out = {}
        for s in seeds:
            r = run(dirs[2], {'op': 'command', 'name': 'evolve', 'kwargs': {'hint': True}}, s, 'hint')
            if r.get('driver_error'):
                atoms.append(['driver_error', r['driver_error'][-200:]])
                break
            st_ = r['steps'][0]
            hint_out[s] = (st_['ok'], st_['stdout'], (st_.get('exc') or {}).get('type'))
        if len(set(hint_out.values())) > 1:
            vals = sorted(set(hint_out.values()), key=repr)[:2]
            atoms.append(['hint_differs_across_hash_seeds', first_difference(vals[0][1], vals[1][1])])
        if hint_out and any('MUTATIONS' in v[1] for v in hint_out.values()):
            out['labels'].append('hint_has_mutations')
        exe = {}
        for s in seeds[:2]:
            r = run(dirs[1], c04.upgrade_step('evolve_cmd'), s, 'exe')
            if r.get('driver_error') or not r['steps'][0]['ok']:
                out['rejected'] = 'execution_failed'
                return out
            exe[s] = executed_by_app(r['steps'][0])
        a, b = exe[seeds[0]], exe[seeds[1]]
        if a != b:
            atoms.append(['executed_statements_differ_across_hash_seeds',
                          first_difference(json.dumps(a, indent=0), json.dumps(b, indent=0))])
        preview = parse_preview(sql_out[seeds[0]])
        for app in sorted(set(preview) | set(a)):
            p, e = preview.get(app, []), a.get(app, [])
            if p != e:
                i = 0
                while i < min(len(p), len(e)) and p[i] == e[i]:
                    i += 1
                atoms.append(['preview_differs_from_execution', app, len(p), len(e),
                              (p[i] if i < len(p) else None), (e[i] if i < len(e) else None)])
            if len(p) >= 2:
                out['nontrivial'] = True
        if any("'" in x for v in preview.values() for x in v if "\\'" in x or "''" in x):
            out['labels'].append('quoted_parameter_in_preview')
    out['nontrivial_keys'] = [sha(h)]
    out['sample'] = {'preview': sql_out[seeds[0]][:1200]}
    return out


def first_difference(a, b):
    la, lb = a.split('\n'), b.split('\n')
    for x, y in zip(la, lb):
        if x != y:
            return [x[:160], y[:160]]
    return ['<length %d>' % len(la), '<length %d>' % len(lb)]


def atom_bucket(atom):
    if atom[0] == 'preview_differs_from_execution':
        kind = 'count' if atom[2] != atom[3] else 'text'
        return '%s:%s' % (atom[0], kind)
    return atom[0]


def candidates(case):
    for c in H.history_candidates(case):
        yield c
    if case.get('rows') and any(case['rows'].values()):
        c = copy.deepcopy(case)
        c['rows'] = {}
        c['links'] = {}
        yield c
