"""C15 - purging and deleting remove exactly what was named, nothing else."""
import copy
import json

from hypothesis import strategies as st

from .. import evolvecase as EC
from .. import history as H
from .. import project as P
from .. import specs as S
from .. import mutgen
from .. import refmodel as R
from . import c04, c07

ID = 'C15'
LEVEL = 'exploration'
RULE = ('Generated projects of 2-4 apps (2-5 models) with relations from the to-be-removed app '
        'into the others, many-to-many fields in both directions inside it, custom db_table '
        'names that are prefixes of one another (shop, shop_item, shop_item_x and M2M tables '
        'named after them) and rows in every table; action drawn from {app removed from '
        'INSTALLED_APPS and purged, removed without purge, evolution with DeleteApplication, '
        'evolution with DeleteModel}; only removals that leave a loadable project; stratum '
        '"two_stale": a second app pl loses all models through a DeleteApplication evolution '
        '(V1), then pl and the victim both leave INSTALLED_APPS (V2) and only the victim is '
        'purged with Evolver.queue_purge_app - pl\'s stored entry must not change. Oracle: the '
        'set of dropped tables equals the tables owned by the named app/model (model tables + '
        'auto-created M2M tables of its fields) computed from the spec; every other table\'s '
        'DDL, indexes and rows are byte-identical; exactly the named entries left the stored '
        'signature and every other app\'s serialisation is identical; without purge nothing is '
        'dropped and the stale app stays in the signature. Non-trivial: a surviving table '
        'shares a name prefix with, or is related to, a dropped one (two_stale: the second stale '
        'app is present in the stored signature before the purge); distinct = SHA-1 of the case.')
ASSUMPTIONS = [
    'purge is driven through the Evolver API (queue_purge_old_apps), as the evolve command does',
    'apps whose models refer to one another inside the removed app trigger F-C01-3 (deletion '
    'order) and are generated without such intra-app relations in the main stratum',
]
MIN_EVALUATIONS = {'quick': 40, 'thorough': 1000}
SHRINK_CHECKS = 25
TABLES = ['shop', 'shop_item', 'shop_item_x', 'shop_i']


@st.composite
def cases(draw, stratum):
    feats = S.Features(meta=False, positive=False)
    napps = draw(st.integers(2, 4))
    apps = S.APP_LABELS[:napps]
    victim = draw(st.sampled_from(apps))
    nmodels = draw(st.integers(napps, 5))
    names = draw(st.permutations(S.MODEL_NAMES))[:nmodels]
    placed = []
    for i, name in enumerate(names):
        app = apps[i] if i < napps else draw(st.sampled_from(apps))
        placed.append((app, name))
    spec = S.new_project()
    used_tables = set()
    for app, name in placed:
        m = S.new_model(name)
        if draw(st.integers(0, 1)) == 0:
            free = [t for t in TABLES if t not in used_tables]
            if free:
                m['db_table'] = draw(st.sampled_from(free))
                used_tables.add(m['db_table'])
        nf = draw(st.integers(1, 3))
        fnames = draw(st.permutations(S.FIELD_NAMES))[:nf]
        for fn in fnames:
            if app == victim:
                # the victim may refer to anything but (main stratum) not to its own models
                targets = [p for p in placed if stratum == 'known' or p[0] != victim]
            else:
                targets = [p for p in placed if p[0] != victim]
            kinds = list(S.ALL_KINDS)
            m['fields'].append(draw(S.field_specs(fn, feats, targets, kinds=kinds)))
        S.add_model(spec, app, m)
    try:
        S._fix_collisions(spec)
    except AssertionError:
        pass
    spec = mutgen.ensure_uids(spec)
    if stratum == 'two_stale':
        action = 'purge_targeted'
    else:
        action = draw(st.sampled_from(['purge', 'purge', 'no_purge', 'delete_application',
                                       'delete_model']))
    rows, links = draw(EC.rows_for(spec, [], 3))
    model = None
    if action == 'delete_model':
        vm = sorted(spec['apps'][victim]['models'])
        model = draw(st.sampled_from(vm))
    # a surviving app that, in the same release, gets an AppConfig label different from its
    # module name (with the RenameAppLabel evolution that goes with it): stored under its old
    # label, it must not be mistaken for a removed app
    relabel = None
    if action in ('purge', 'no_purge'):
        eligible = []
        for a in apps:
            if a == victim or a not in spec['apps'] or not spec['apps'][a]['models']:
                continue
            out_ok = all(f['target'] is None or f['target'][0] == a
                         for _n, m in spec['apps'][a]['models'].items() for f in m['fields'])
            in_ok = all(not (f['target'] and f['target'][0] == a)
                        for a2, _n, m in S.iter_models(spec) if a2 != a for f in m['fields'])
            if out_ok and in_ok:
                eligible.append(a)
        if eligible and draw(st.booleans()):
            relabel = draw(st.sampled_from(eligible))
    return {'spec': spec, 'victim': victim, 'action': action, 'model': model, 'rows': rows,
            'links': links, 'entry': draw(st.sampled_from(['api', 'evolve_cmd'])),
            'relabel': relabel}


def jobs(tier, scale=1.0):
    per = max(1, int((10 if tier == 'quick' else 120) * scale))
    return [{'kind': 'hyp', 'stratum': 'known' if i % 8 == 7 else 'main', 'shard': i,
             'examples': per} for i in range(16)] + \
           [{'kind': 'hyp', 'stratum': 'two_stale', 'shard': 16 + i, 'examples': max(1, per // 2)}
            for i in range(2)]


def run_job(job, seed, rec, tier):
    from .. import run as RUN
    if job['kind'] == 'replay':
        with open(job['file']) as fh:
            doc = json.load(fh)
        case = doc.get('case', doc)
        rec.record(case, check(case))
        return
    RUN.hyp_job(cases(job['stratum']), check, job['examples'], seed, rec,
                max_seconds=(150 if tier == 'quick' else 3000))


def owned_tables(spec, app, model=None):
    out = set()
    for a, n, m in S.iter_models(spec):
        if a != app or (model is not None and n != model):
            continue
        out.add(S.table_of(a, m))
        for f in m['fields']:
            if f['kind'] == 'ManyToMany':
                out.add(S.m2m_table_of(a, m, f))
    return out


def check(case):
    from ..run import sha
    out = {'labels': ['action:' + case['action'], 'entry:' + case['entry']], 'atoms': [],
           'nontrivial': False}
    atoms = out['atoms']
    spec = mutgen.ensure_uids(copy.deepcopy(case['spec']))
    victim = case['victim']
    try:
        R.validate(spec)
    except R.RefInvalid:
        out['rejected'] = 'ref_invalid'
        return out
    if victim not in spec['apps'] or not spec['apps'][victim]['models'] or len(spec['apps']) < 2:
        out['rejected'] = 'no_victim'
        return out
    action = case['action']
    model = case.get('model')
    if action == 'purge_targeted':
        return check_targeted(case, spec, victim, out)
    apps = sorted(spec['apps'])
    after_spec = copy.deepcopy(spec)
    evolutions0 = {a: [] for a in apps}
    evolutions1 = {a: [] for a in apps}
    apps1 = list(apps)
    if action in ('purge', 'no_purge'):
        after_spec['apps'].pop(victim)
        apps1 = [a for a in apps if a != victim]
        evolutions1.pop(victim)
        named = owned_tables(spec, victim)
        gone_models = {victim: None}
    elif action == 'delete_application':
        after_spec['apps'][victim]['models'] = {}
        evolutions1[victim] = [{'label': 'e1', 'mutations': [
            {'kind': 'DeleteApplication', 'app': victim}]}]
        named = owned_tables(spec, victim)
        gone_models = {victim: sorted(spec['apps'][victim]['models'])}
    else:
        if model not in spec['apps'][victim]['models']:
            out['rejected'] = 'no_model'
            return out
        if len(spec['apps'][victim]['models']) < 2:
            out['rejected'] = 'last_model'
            return out
        del after_spec['apps'][victim]['models'][model]
        evolutions1[victim] = [{'label': 'e1', 'mutations': [
            {'kind': 'DeleteModel', 'app': victim, 'model': model}]}]
        named = owned_tables(spec, victim, model)
        gone_models = {victim: [model]}
    # only removals that leave a loadable project
    try:
        R.validate(after_spec)
    except R.RefInvalid:
        out['rejected'] = 'dangling_after_removal'
        return out
    survivors = set(S.all_tables(after_spec))
    related = False
    for t in named:
        for s_ in survivors:
            if s_.startswith(t) or t.startswith(s_):
                related = True
    for a, n, m in S.iter_models(spec):
        if a == victim and (model is None or n == model):
            if any(f['target'] and f['target'][0] != victim for f in m['fields']):
                related = True
    if related:
        out['labels'].append('survivor_shares_prefix_or_relation')
    if any(f['kind'] == 'ManyToMany' for a, n, m in S.iter_models(spec)
           if a == victim and (model is None or n == model) for f in m['fields']):
        out['labels'].append('named_has_m2m')
    v0 = {'spec': spec, 'apps': apps, 'evolutions': evolutions0, 'deps': {}}
    v1 = {'spec': after_spec, 'apps': apps1, 'evolutions': evolutions1, 'deps': {}}
    relabel = case.get('relabel')
    NEW = 'pz'
    if relabel:
        if relabel == victim or relabel not in after_spec['apps'] or \
                action not in ('purge', 'no_purge'):
            out['rejected'] = 'relabel_not_applicable'
            return out
        out['labels'].append('surviving_app_relabelled')
        # the tables keep their names: explicit db_table before and after
        for sp in (spec, after_spec):
            for _n, m in sp['apps'][relabel]['models'].items():
                if not m['db_table']:
                    m['db_table'] = S.table_of(relabel, m)
        after_spec['apps'][NEW] = after_spec['apps'].pop(relabel)
        for _n, m in after_spec['apps'][NEW]['models'].items():
            for f in m['fields']:
                if f['target'] and f['target'][0] == relabel:
                    f['target'] = [NEW, f['target'][1]]
        v1['apps'] = [NEW if a == relabel else a for a in apps1]
        evolutions1.pop(relabel, None)
        evolutions1[NEW] = [{'label': 'relabel', 'mutations': [
            {'kind': 'RenameAppLabel', 'app': NEW, 'old': relabel, 'new': NEW,
             'legacy': relabel}]}]
        v1['app_modules'] = {NEW: relabel}
        try:
            R.validate(after_spec)
        except R.RefInvalid:
            out['rejected'] = 'relabel_not_applicable'
            return out
    with P.Scratch('c15_') as sc:
        dirs = H.write_versions(sc, [v0, v1])
        db = sc.sub('db.sqlite3')
        res = P.run_driver(dirs[0], db, {'steps': [
            c04.upgrade_step('api'),
            {'op': 'insert_rows', 'spec': spec, 'rows': case['rows'], 'links': case['links']}]})
        if c04.run_failed('install', res, []):
            out['rejected'] = 'install_failed'
            return out
        before = res['dumps']['default']
        if action == 'purge':
            step = {'op': 'evolve_api', 'purge': True, 'force': True}
            if case['entry'] == 'evolve_cmd':
                step = {'op': 'command', 'name': 'evolve',
                        'kwargs': {'execute': True, 'interactive': False, 'purge': True}}
        else:
            step = c04.upgrade_step(case['entry'])
        up = P.run_driver(dirs[1], db, {'steps': [step]})
        if up.get('driver_error'):
            atoms.append(['driver_error', up['driver_error'][-300:]])
            return out
        s = up['steps'][0]
        if not s['ok']:
            atoms.append(['run_failed', action, s['exc']['type'], s['exc'].get('where'),
                          s['exc']['msg'][:160]])
            return out
        after = up['dumps']['default']
    bt, at = before['tables'], after['tables']
    user_before = {t for t in bt if t not in ('django_project_version', 'django_evolution',
                                              'django_migrations', 'django_content_type',
                                              'sqlite_sequence')}
    user_after = {t for t in at if t in user_before or t not in bt}
    dropped = user_before - set(at)
    expected_drop = set() if action == 'no_purge' else named
    if dropped - expected_drop:
        atoms.append(['dropped_unnamed_tables', action, sorted(dropped - expected_drop)])
    if expected_drop - dropped:
        atoms.append(['named_tables_not_dropped', action, sorted(expected_drop - dropped)])
    for t in sorted(user_before - dropped - expected_drop):
        if t in at and (bt[t]['sql'] != at[t]['sql'] or bt[t]['indexes'] != at[t]['indexes']
                        or bt[t]['rows'] != at[t]['rows']):
            atoms.append(['other_table_changed', action, t])
    new_tables = set(at) - set(bt)
    if new_tables:
        atoms.append(['tables_appeared', action, sorted(new_tables)])
    # signature entries
    sb = (before.get('sig_check') or {}).get('stored_apps') or {}
    sa = (after.get('sig_check') or {}).get('stored_apps') or {}
    for app in sorted(set(sb) | set(sa)):
        if app in ('contenttypes', 'django_evolution'):
            continue
        if relabel and app in (relabel, NEW):
            if app == relabel:
                if app in sa:
                    atoms.append(['relabelled_app_still_under_old_label', action])
                if NEW not in sa:
                    atoms.append(['relabelled_app_missing_from_signature', action])
                elif sa[NEW]['models'] != sb[relabel]['models']:
                    atoms.append(['relabelled_app_models_differ', action, sb[relabel]['models'],
                                  sa[NEW]['models']])
            continue
        if app == victim:
            if action == 'purge':
                if app in sa and sa[app]['models']:
                    atoms.append(['purged_app_still_has_models_in_signature', sa[app]['models']])
                elif app in sa:
                    atoms.append(['purged_app_left_empty_entry_in_signature'])
            elif action == 'no_purge':
                if app not in sa or sa[app]['serialized'] != sb[app]['serialized']:
                    atoms.append(['stale_app_entry_changed_without_purge'])
            else:
                want = sorted(set(sb[app]['models']) - set(gone_models[victim]))
                got = sa.get(app, {}).get('models', [])
                if want != got:
                    atoms.append(['signature_models_differ', action, want, got])
        else:
            if app not in sa or app not in sb or sa[app]['serialized'] != sb[app]['serialized']:
                atoms.append(['other_app_signature_changed', action, app])
    if action == 'no_purge' and s['n_change'] and not relabel:
        from .. import inproc
        chg = [t[2] for t in s['trace'] if t[0] == 'sql' and inproc.is_change(t[2])
               and 'django_project_version' not in t[2] and 'django_evolution' not in t[2]]
        if chg:
            atoms.append(['no_purge_but_sql_executed', chg[0][:100]])
    out['nontrivial'] = bool(related and action != 'no_purge') or action == 'no_purge'
    out['nontrivial_keys'] = [sha(case)]
    out['sample'] = {'action': action, 'victim': victim, 'model': model,
                     'tables_before': sorted(user_before), 'dropped': sorted(dropped)}
    return out


LEGACY = 'pl'


def check_targeted(case, spec, victim, out):
    """Two stale apps, one of which (pl) lost all its models through an earlier
    DeleteApplication evolution; only the victim is purged (Evolver.queue_purge_app).
    pl's stored signature entry - whatever it is after the V1 run - and everything of
    the other apps must be unchanged; exactly the victim's tables are dropped."""
    from ..run import sha
    atoms = out['atoms']
    action = 'purge_targeted'
    spec = copy.deepcopy(spec)
    lm = S.new_model('Legacy')
    lm['fields'].append(S.new_field('n', 'Integer', null=True))
    S.add_model(spec, LEGACY, lm)
    spec = mutgen.ensure_uids(spec)
    apps = sorted(spec['apps'])
    spec1 = copy.deepcopy(spec)
    spec1['apps'][LEGACY]['models'] = {}
    spec2 = copy.deepcopy(spec1)
    spec2['apps'].pop(LEGACY)
    spec2['apps'].pop(victim)
    try:
        R.validate(spec)
        R.validate(spec1)
        R.validate(spec2)
    except R.RefInvalid:
        out['rejected'] = 'dangling_after_removal'
        return out
    ev0 = {a: [] for a in apps}
    ev1 = {a: [] for a in apps}
    ev1[LEGACY] = [{'label': 'e1', 'mutations': [{'kind': 'DeleteApplication', 'app': LEGACY}]}]
    apps2 = [a for a in apps if a not in (LEGACY, victim)]
    ev2 = {a: [] for a in apps2}
    named = owned_tables(spec, victim)
    v0 = {'spec': spec, 'apps': apps, 'evolutions': ev0, 'deps': {}}
    v1 = {'spec': spec1, 'apps': apps, 'evolutions': ev1, 'deps': {}}
    v2 = {'spec': spec2, 'apps': apps2, 'evolutions': ev2, 'deps': {}}
    with P.Scratch('c15t_') as sc:
        dirs = H.write_versions(sc, [v0, v1, v2])
        db = sc.sub('db.sqlite3')
        res = P.run_driver(dirs[0], db, {'steps': [
            c04.upgrade_step('api'),
            {'op': 'insert_rows', 'spec': spec, 'rows': case['rows'], 'links': case['links']}]})
        if c04.run_failed('install', res, []):
            out['rejected'] = 'install_failed'
            return out
        mid = P.run_driver(dirs[1], db, {'steps': [c04.upgrade_step('api')]})
        if mid.get('driver_error') or not mid['steps'][0]['ok']:
            out['rejected'] = 'delete_application_run_failed'
            return out
        before = mid['dumps']['default']
        up = P.run_driver(dirs[2], db, {'steps': [
            {'op': 'evolve_api', 'purge_apps': [victim], 'force': True}]})
        if up.get('driver_error'):
            atoms.append(['driver_error', up['driver_error'][-300:]])
            return out
        s = up['steps'][0]
        if not s['ok']:
            atoms.append(['run_failed', action, s['exc']['type'], s['exc'].get('where'),
                          s['exc']['msg'][:160]])
            return out
        after = up['dumps']['default']
    bt, at = before['tables'], after['tables']
    skip = ('django_project_version', 'django_evolution', 'django_migrations',
            'django_content_type', 'sqlite_sequence')
    user_before = {t for t in bt if t not in skip}
    dropped = user_before - set(at)
    if dropped - named:
        atoms.append(['dropped_unnamed_tables', action, sorted(dropped - named)])
    if named - dropped:
        atoms.append(['named_tables_not_dropped', action, sorted(named - dropped)])
    for t in sorted(user_before - dropped - named):
        if t in at and (bt[t]['sql'] != at[t]['sql'] or bt[t]['indexes'] != at[t]['indexes']
                        or bt[t]['rows'] != at[t]['rows']):
            atoms.append(['other_table_changed', action, t])
    if set(at) - set(bt):
        atoms.append(['tables_appeared', action, sorted(set(at) - set(bt))])
    sb = (before.get('sig_check') or {}).get('stored_apps') or {}
    sa = (after.get('sig_check') or {}).get('stored_apps') or {}
    for app in sorted(set(sb) | set(sa)):
        if app in ('contenttypes', 'django_evolution'):
            continue
        if app == victim:
            if app in sa and sa[app]['models']:
                atoms.append(['purged_app_still_has_models_in_signature', sa[app]['models']])
        elif app not in sa or app not in sb or sa[app]['serialized'] != sb[app]['serialized']:
            atoms.append(['other_app_signature_changed', action, app])
    if LEGACY in sb:
        out['labels'].append('second_stale_app_in_signature:models=%d' % len(sb[LEGACY]['models']))
    out['nontrivial'] = LEGACY in sb
    out['nontrivial_keys'] = [sha(case)]
    out['sample'] = {'action': action, 'victim': victim, 'tables_before': sorted(user_before),
                     'dropped': sorted(dropped), 'legacy_entry_before': sb.get(LEGACY, {}).get('models')}
    return out


def atom_bucket(atom):
    if atom[0] == 'run_failed':
        return 'run_failed:%s:%s:%s' % (atom[1], atom[2], atom[3])
    return '%s:%s' % (atom[0], atom[1] if len(atom) > 1 and isinstance(atom[1], str) else '')


def candidates(case):
    from .. import shrink as SH
    proxy = {'spec': case['spec'], 'seq': [], 'rows': case.get('rows')}
    for c2 in SH.spec_seq_candidates(proxy):
        c = copy.deepcopy(case)
        c['spec'] = c2['spec']
        c['rows'] = c2.get('rows') or {}
        yield c
    if case['entry'] != 'api':
        yield dict(copy.deepcopy(case), entry='api')
