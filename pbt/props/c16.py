"""C16 - evolving one database only applies what is routed to that database."""
import copy
import json

from hypothesis import strategies as st

from .. import evolvecase as EC
from .. import history as H
from .. import project as P
from .. import specs as S
from .. import mutgen
from .. import refmodel as R
from .. import dbnorm
from . import c04, c07

ID = 'C16'
LEVEL = 'exploration'
RULE = ('Generated projects with two SQLite databases (default, other) and a router class '
        '(allow_migrate / db_for_read / db_for_write by model; django_evolution\'s own models '
        'allowed on both): one app of 2-3 models, EVERY assignment of its models to the two '
        'databases is drawn, relations only within a side, rows on both sides; a V0->V1 '
        'evolution (reference-model walk of 1-5 field/Meta-level mutations, thorough: also '
        'model-level) that touches models of both sides. Both databases are installed, the '
        'project switches to V1, then default is evolved, both files are dumped, then other is '
        'evolved and both are dumped again. Oracle: each run succeeds; the evolved database '
        'holds exactly the tables of the models routed to it with the schema of a fresh V1 '
        'install of that database, and its stored signature lists exactly those models; the '
        'other database file (schema, rows, bookkeeping) is unchanged by the run. Non-trivial: '
        'the evolution has >=1 mutation for each side; distinct = SHA-1 of the case.')
ASSUMPTIONS = [
    'router policies are by model name only; SQLite only',
    'relations are generated within one side (Django requires that)',
]
MIN_EVALUATIONS = {'quick': 30, 'thorough': 600}
SHRINK_CHECKS = 20
MAX_REJECT_RATE = 0.6      # cases whose sequence carries an optimiser-finding flag (C03's subject)


@st.composite
def cases(draw, tier, stratum):
    feats = S.Features(meta=False, positive=False, two_apps=False, relations=False, m2m=False)
    spec = None
    for _ in range(4):
        spec = mutgen.ensure_uids(draw(S.project_specs(feats, apps=('pa',), min_models=2)))
        if len(spec['apps']['pa']['models']) >= 2:
            break
    names = sorted(spec['apps']['pa']['models'])
    sides = {}
    for n in names:
        sides[n] = draw(st.sampled_from(['default', 'other']))
    if len(set(sides.values())) == 1 and draw(st.integers(0, 7)) != 0:
        sides[names[0]] = 'other' if sides[names[0]] == 'default' else 'default'
    # relations within a side
    for n in names:
        m = spec['apps']['pa']['models'][n]
        same = [x for x in names if sides[x] == sides[n]]
        if same and draw(st.integers(0, 2)) == 0 and len(m['fields']) < 4:
            free = [fn for fn in S.FIELD_NAMES if S.get_field(m, fn) is None]
            if free:
                kind = draw(st.sampled_from(['ForeignKey', 'ManyToMany']))
                f = S.new_field(free[0], kind, target=['pa', draw(st.sampled_from(same))],
                                null=True)
                f['uid'] = 'pa.%s.%s' % (n, free[0])
                m['fields'].append(f)
    kinds = ['AddField', 'DeleteField', 'ChangeField', 'RenameField']
    if stratum == 'model_level':
        kinds += ['DeleteModel', 'RenameModel']
    opts = mutgen.WalkOpts(kinds=kinds, max_len=5, min_len=2, avoid=set(H.AVOID))
    from .. import findings as F
    seq = []
    for _ in range(4):
        # (redrawn until free of the optimiser-finding flags check() rejects)
        seq, _final = draw(mutgen.walks(spec, S.Features(meta=False, positive=False,
                                                         relations=False, m2m=False), opts))
        try:
            fl, _t = F.c03_flags({'mode': 'walk', 'spec': spec, 'seq': copy.deepcopy(seq),
                                  'cuts': []}, {})
        except Exception:
            continue
        if stratum == 'model_level':
            for k_ in fl:
                fl[k_].discard('model_level')
        if not any(fl.values()):
            break
    # make the evolution concern both sides: a nullable column for a model of
    # any side the walk did not reach
    touched, cur = set(), spec
    for m_ in seq:
        mm = S.get_model(cur, m_['app'], m_.get('model', m_.get('old')))
        if mm is not None:
            touched.add(mm['uid'])
        cur = R.apply(cur, m_, strict=False)
    uid_side = {spec['apps']['pa']['models'][n]['uid']: sides[n] for n in names}
    for side in ('default', 'other'):
        if any(uid_side.get(u) == side for u in touched):
            continue
        for n in sorted(cur['apps']['pa']['models']):
            m = cur['apps']['pa']['models'][n]
            if uid_side.get(m['uid']) == side and S.get_field(m, 'extra') is None:
                f = S.new_field('extra', 'Integer', null=True)
                f['uid'] = '%s.extra' % m['uid']
                pos = draw(st.integers(0, len(seq)))
                cand = seq[:pos] + [{'kind': 'AddField', 'app': 'pa', 'model': n, 'field': f,
                                     'initial': None}] + seq[pos:]
                try:
                    R.apply_all(spec, cand, strict=True)
                    seq = cand
                except R.RefInvalid:
                    seq = seq + [cand[pos]]
                break
    rows, links = draw(EC.rows_for(spec, seq, 2))
    router = draw(st.sampled_from(['model_only', 'model_only', 'app_level:default',
                                   'app_level:other']))
    sql_label = stratum == 'sql' or draw(st.integers(0, 3)) == 0
    return {'spec': spec, 'sides': sides, 'seq': seq, 'rows': rows, 'links': links,
            'router': router, 'sql_label': sql_label, 'model_level': stratum == 'model_level'}


def jobs(tier, scale=1.0):
    per = max(1, int((6 if tier == 'quick' else 60) * scale))
    strata = ['main', 'sql', 'main', 'model_level']
    return [{'kind': 'hyp', 'stratum': strata[i % 4], 'shard': i, 'examples': per, 'tier': tier}
            for i in range(16)]


def run_job(job, seed, rec, tier):
    from .. import run as RUN
    if job['kind'] == 'replay':
        with open(job['file']) as fh:
            doc = json.load(fh)
        case = doc.get('case', doc)
        rec.record(case, check(case))
        return
    RUN.hyp_job(cases(tier, job['stratum']), check, job['examples'], seed, rec,
                max_seconds=(150 if tier == 'quick' else 3000))


def routes_for(spec_list, sides0):
    """Routes for every model name that ever exists (renames keep their side)."""
    routes = {}
    for sp, sides in spec_list:
        for n, m in sp['apps']['pa']['models'].items():
            side = sides.get(m['uid'])
            if side:
                routes['pa.%s' % n.lower()] = side
                for f in m['fields']:
                    if f['kind'] == 'ManyToMany':
                        # auto-created through model: <model>_<field>
                        routes['pa.%s_%s' % (n.lower(), f['name'])] = side
    return routes


def tables_on(spec, side_of_uid, alias):
    out = set()
    for a, n, m in S.iter_models(spec):
        if side_of_uid.get(m['uid']) == alias:
            out.add(S.table_of(a, m))
            for f in m['fields']:
                if f['kind'] == 'ManyToMany':
                    out.add(S.m2m_table_of(a, m, f))
    return out


def user_state(dump):
    return {t: v for t, v in c07.state_of({'default': dump}).items()}


def check(case):
    from .. import findings as F
    from ..run import sha
    out = {'labels': [], 'atoms': [], 'nontrivial': False}
    atoms = out['atoms']
    spec0 = mutgen.ensure_uids(copy.deepcopy(case['spec']))
    seq = mutgen.ensure_seq_uids(case['seq'])
    try:
        R.validate(spec0)
        spec1 = R.apply_all(spec0, seq, strict=True)
    except (R.RefInvalid, KeyError, TypeError, AttributeError):
        out['rejected'] = 'ref_invalid'
        return out
    if 'pa' not in spec0['apps'] or len(spec0['apps']['pa']['models']) < 1:
        out['rejected'] = 'no_models'
        return out
    fl, _t = F.c03_flags({'mode': 'walk', 'spec': spec0, 'seq': copy.deepcopy(seq), 'cuts': []}, {})
    if case.get('model_level'):
        # model-level mutations are this stratum's subject; alone in their
        # evolution they are not the optimiser's (C03) business
        # ... as long as nothing else in the run concerns the renamed/deleted model
        # and it is the only model-level mutation of the run (F-C03-4 otherwise: e.g.
        # DeleteModel(Item) + RenameModel(BookStore -> Item) reuses a model name)
        tr = EC.spec_trail(spec0, seq)
        per_uid, model_level_uids, renames = {}, [], 0
        for i, m_ in enumerate(seq):
            mm = S.get_model(tr[i], m_['app'], m_.get('model', m_.get('old')))
            u = mm['uid'] if mm else None
            per_uid[u] = per_uid.get(u, 0) + 1
            if m_['kind'] in ('RenameModel', 'DeleteModel'):
                model_level_uids.append(u)
                renames += m_['kind'] == 'RenameModel'
        if renames <= 1 and len(model_level_uids) <= 1 and \
                all(per_uid.get(u) == 1 for u in model_level_uids):
            for k_ in fl:
                fl[k_].discard('model_level')
    if any(fl.values()):
        out['rejected'] = 'c03_flags'
        return out
    side_of_uid = {}
    for n, m in spec0['apps']['pa']['models'].items():
        side_of_uid[m['uid']] = case['sides'].get(n, 'default')
    # relations must stay within a side
    for sp in (spec0, spec1):
        for a, n, m in S.iter_models(sp):
            for f in m['fields']:
                if f['target']:
                    tm = S.get_model(sp, *f['target'])
                    if tm is None or side_of_uid.get(tm['uid']) != side_of_uid.get(m['uid']):
                        out['rejected'] = 'cross_side_relation'
                        return out
    trail = EC.spec_trail(spec0, seq)
    routes = routes_for([(sp, side_of_uid) for sp in trail], None)
    touched_sides = set()
    cur = spec0
    for m_ in seq:
        mm = S.get_model(cur, m_['app'], m_.get('model', m_.get('old')))
        if mm is not None:
            touched_sides.add(side_of_uid.get(mm['uid']))
        cur = R.apply(cur, m_, strict=False)
    out['labels'].append('split:%s' % '/'.join(sorted(set(side_of_uid.values()))))
    if len(touched_sides) == 2:
        out['labels'].append('evolution_touches_both_sides')
    for m_ in seq:
        out['labels'].append('mut:' + m_['kind'])
    router = case.get('router', 'model_only')
    out['labels'].append('router:' + router)
    if router.startswith('app_level:'):
        # the router also answers the app-level question (model_name=None)
        routes['@pa'] = router.split(':', 1)[1]
    evo = {'pa': [{'label': 'e1', 'mutations': seq}]}
    if case.get('sql_label'):
        # a second evolution shipped as per-database SQL files: each file adds a
        # nullable column to one model routed to that database
        spec1 = copy.deepcopy(spec1)
        sql = {'default': ['SELECT 1;'], 'other': ['SELECT 1;']}
        for alias in ('default', 'other'):
            for n in sorted(spec1['apps']['pa']['models']):
                m = spec1['apps']['pa']['models'][n]
                if side_of_uid.get(m['uid']) == alias and S.get_field(m, 'sq') is None:
                    f = S.new_field('sq', 'Integer', null=True)
                    f['uid'] = 'pa.%s.sq' % n
                    m['fields'].append(f)
                    sql[alias] = ['ALTER TABLE "%s" ADD COLUMN "sq" integer NULL;'
                                  % S.table_of('pa', m)]
                    out['labels'].append('sql_file_changes:' + alias)
                    break
        evo['pa'].append({'label': 's1', 'sql': sql})
    v0 = {'spec': spec0, 'apps': ['pa'], 'evolutions': {'pa': []}, 'deps': {}}
    v1 = {'spec': spec1, 'apps': ['pa'], 'evolutions': evo, 'deps': {}}
    extra = {'routes': routes, 'two_dbs': True}
    both = ['default', 'other']
    with P.Scratch('c16_') as sc:
        dirs = H.write_versions(sc, [v0, v1], extra=extra)
        dbd, dbo = sc.sub('default.sqlite3'), sc.sub('other.sqlite3')
        fd, fo = sc.sub('fresh_default.sqlite3'), sc.sub('fresh_other.sqlite3')
        inst = P.run_driver(dirs[0], dbd, {'steps': [
            {'op': 'evolve_api', 'database': 'default'},
            {'op': 'evolve_api', 'database': 'other'}], 'dump': both}, db_other=dbo)
        if c04.run_failed('install', inst, []):
            out['rejected'] = 'install_failed'
            out['error'] = str(inst.get('driver_error') or
                               [s_.get('exc') for s_ in inst['steps']])[:300]
            return out
        # rows, each side's models into its own file
        for alias, path in (('default', dbd), ('other', dbo)):
            side_spec = copy.deepcopy(spec0)
            side_spec['apps']['pa']['models'] = {
                n: m for n, m in spec0['apps']['pa']['models'].items()
                if side_of_uid[m['uid']] == alias}
            r = P.run_driver(dirs[0], dbd, {'steps': [
                {'op': 'insert_rows', 'database': alias, 'spec': side_spec,
                 'rows': case['rows'], 'links': case['links']}], 'dump': both}, db_other=dbo)
            if c04.run_failed('rows', r, []):
                out['rejected'] = 'rows_failed'
                return out
            inst = r
        fresh = P.run_driver(dirs[1], fd, {'steps': [
            {'op': 'evolve_api', 'database': 'default'},
            {'op': 'evolve_api', 'database': 'other'}], 'dump': both}, db_other=fo)
        if c04.run_failed('fresh', fresh, []):
            out['rejected'] = 'fresh_failed'
            out['error'] = str(fresh.get('driver_error') or
                               [s_.get('exc') for s_ in fresh['steps']])[:600]
            return out
        prev = inst['dumps']
        for alias in both:
            run = P.run_driver(dirs[1], dbd, {'steps': [
                {'op': 'evolve_api', 'database': alias}], 'dump': both}, db_other=dbo)
            if run.get('driver_error'):
                atoms.append(['driver_error', run['driver_error'][-300:]])
                return out
            s = run['steps'][0]
            if not s['ok']:
                atoms.append(['run_failed', alias, s['exc']['type'], s['exc'].get('where'),
                              s['exc']['msg'][:160]])
                return out
            other = 'other' if alias == 'default' else 'default'
            # the other file is untouched
            d = c07.diff_tables(c07.state_of({'default': prev[other]}),
                                c07.state_of({'default': run['dumps'][other]}))
            if d:
                atoms.append(['other_database_modified', alias, sorted({x[0] for x in d}),
                              sorted({x[1] for x in d})[:3]])
            # this database: exactly the routed models, with the fresh schema
            want = tables_on(spec1, side_of_uid, alias)
            have = set(run['dumps'][alias]['norm'])
            foreign = tables_on(spec1, side_of_uid, other) | tables_on(spec0, side_of_uid, other)
            if have & foreign:
                atoms.append(['table_of_model_routed_elsewhere', alias, sorted(have & foreign)])
            if want - have:
                atoms.append(['routed_table_missing', alias, sorted(want - have)])
            stale = have - want - foreign
            if stale:
                atoms.append(['unexpected_table', alias, sorted(stale)])
            named = S.used_names(spec1)
            a_norm = dbnorm.from_jsonable(run['dumps'][alias]['norm'])
            f_norm = dbnorm.from_jsonable(fresh['dumps'][alias]['norm'])
            for t, kind, detail, side in dbnorm.compare(
                    {t: v for t, v in a_norm.items() if t in want},
                    {t: v for t, v in f_norm.items() if t in want}, named):
                atoms.append(['schema_differs_from_fresh', alias, t, kind,
                              dbnorm.jsonable(detail), side])
            sc_ = run['dumps'][alias].get('sig_check') or {}
            stored = ((sc_.get('stored_apps') or {}).get('pa') or {}).get('models')
            expect = sorted(n for n, m in spec1['apps']['pa']['models'].items()
                            if side_of_uid.get(m['uid']) == alias)
            if stored is not None and sorted(stored) != expect:
                atoms.append(['signature_lists_wrong_models', alias, expect, sorted(stored)])
            if stored is None and expect:
                atoms.append(['signature_lacks_app', alias])
            prev = run['dumps']
    out['nontrivial'] = len(touched_sides) == 2
    out['nontrivial_keys'] = [sha(case)]
    from .. import render
    out['sample'] = {'sides': case['sides'], 'seq': [render.describe(m) for m in seq]}
    return out


def atom_bucket(atom):
    if atom[0] == 'run_failed':
        return 'run_failed:%s:%s:%s' % (atom[1], atom[2], atom[3])
    if atom[0] == 'schema_differs_from_fresh':
        return '%s:%s:%s' % (atom[0], atom[3], atom[5])
    return '%s:%s' % (atom[0], atom[1])


def candidates(case):
    from .. import shrink as SH
    for c in SH.spec_seq_candidates(case):
        yield c
