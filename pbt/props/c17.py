"""C17 - lifecycle signals are paired and tell the truth about the run."""
import copy
import json
import re

from hypothesis import strategies as st

from .. import history as H
from .. import project as P
from .. import specs as S
from .. import refmodel as R
from . import c04, c07

ID = 'C17'
LEVEL = 'fault_enumeration'
RULE = ('Runs of generated projects (fresh install, upgrade with evolutions, with new models / '
        'new apps, purge of a removed app, nothing to do), each fault-free and with an injected '
        'database error at EVERY schema/data-changing statement index, plus the fault-free '
        'retry. The recorder appends signals and statements to one list, so their interleaving '
        'is exact. A small automaton checks: evolving at most once and before the first '
        'changing statement of evolve(); exactly one terminator afterwards - evolved iff the run '
        'returned normally, evolving_failed (carrying the raised exception) iff it raised - and '
        'no signal after it; every applying_evolution / applying_migration / creating_models is '
        'closed by its counterpart with an equal payload unless the failure intervenes, no '
        'closer without opener; statements inside an applying_evolution pair touch only tables '
        'of that app and a closed pair executed at least one statement; creating_models pairs '
        'contain the CREATE TABLE of exactly the named models; the process-wide _evolve_lock is '
        '0 after every run. evaluations = runs checked; non-trivial = the trace has >=2 pairs or '
        'a fault between an opener and its counterpart; distinct = SHA-1 of (history, k).')
ASSUMPTIONS = list(c07.ASSUMPTIONS) + [
    'the baseline installation of django_evolution\'s own tables in Evolver.__init__ (a fresh '
    'database) precedes evolve() and is not judged by the "before any change" clause',
]
MIN_EVALUATIONS = {'quick': 100, 'thorough': 3000}
SHRINK_CHECKS = 20

PAIRS = {'applying_evolution': 'applied_evolution', 'applying_migration': 'applied_migration',
         'creating_models': 'created_models'}
CLOSERS = {v: k for k, v in PAIRS.items()}


@st.composite
def cases(draw, stratum):
    if stratum == 'fresh':
        feats = S.Features(meta=False, positive=False)
        h = draw(H.histories(feats, max_steps=2, min_steps=0))
        return {'history': h, 'rows': {}, 'links': {}, 'entry': draw(st.sampled_from(
            ['api', 'evolve_cmd'])), 'stratum': 'fresh', 'fresh': True}
    if stratum in ('handover', 'deps', 'soft_initial'):
        # projects with Django migrations next to evolutions (the C10 / C09 generators);
        # every evolution adds the column c_<label>, so what a pair executed is attributable
        from . import c09, c10
        if stratum == 'deps':
            src = draw(c09.cases('main'))
        else:
            src = draw(c10.cases(draw(st.sampled_from(['evolving', 'evolving', 'fresh',
                                                       'migrated']))))
        return {'from': 'c09' if stratum == 'deps' else 'c10', 'src': src,
                'soft_initial': stratum == 'soft_initial',
                'entry': draw(st.sampled_from(['api', 'evolve_cmd'])), 'stratum': stratum,
                'history': {'steps': []}, 'rows': {}, 'links': {}, 'max_faults': 6}
    c = draw(c07.cases('purge' if stratum == 'purge' else
                       ('single' if stratum == 'single' else 'multi')))
    c['stratum'] = stratum
    return c


def versions_from(case):
    """(v0 or None, v1, statements to run after installing v0) for the cases
    built by the C09 / C10 generators."""
    from . import c09, c10
    src = case['src']
    pre = []
    if case['from'] == 'c09':
        v0, v1 = c09.build_versions(src)
        return v0, v1, pre
    k, m, p = src['k'], src['m'], src['p']
    st_ = src['start']
    v1 = c10.build(src, k, True, m)
    if st_[0] == 'fresh':
        v0 = None
    elif st_[0] == 'evo':
        v0 = c10.build(src, st_[1], False, 0, neighbours_new=False)
    else:
        v0 = c10.build(src, k, True, st_[1], neighbours_new=False)
    if case.get('soft_initial'):
        # a migrations-only app whose table already exists although its initial
        # migration was never recorded (created by hand / an older tool)
        import copy as _c
        from .. import specs as S_
        v1 = _c.deepcopy(v1)
        if 'pm' not in v1['apps']:
            v1['apps'].append('pm')
            S_.add_model(v1['spec'], 'pm', S_.new_model('Book', [c10.fld('a')]))
            v1['migrations']['pm'] = [{'name': '0001_initial', 'initial': True, 'dependencies': [],
                                       'operations': [{'op': 'CreateModel', 'app': 'pm',
                                                       'spec': S_.new_model('Book',
                                                                            [c10.fld('a')])}]}]
            from .. import mutgen as MG
            v1['spec'] = MG.ensure_uids(v1['spec'])
        if v0 is not None:
            v0 = _c.deepcopy(v0)
            if 'pm' in v0['apps']:
                v0['apps'].remove('pm')
                v0['spec']['apps'].pop('pm', None)
                v0['migrations'].pop('pm', None)
            cols = ', '.join('"%s" integer NULL' % f['name']
                             for f in v1['spec']['apps']['pm']['models']['Book']['fields'])
            pre = ['CREATE TABLE "pm_book" ("id" integer NOT NULL PRIMARY KEY AUTOINCREMENT, %s)'
                   % cols]
    return v0, v1, pre


def jobs(tier, scale=1.0):
    per = max(1, int((4 if tier == 'quick' else 60) * scale))
    strata = ['single', 'multi', 'fresh', 'purge', 'single', 'handover', 'deps', 'soft_initial']
    return [{'kind': 'hyp', 'stratum': strata[i % 8], 'shard': i, 'examples': per}
            for i in range(16)]


def run_job(job, seed, rec, tier):
    from .. import run as RUN
    if job['kind'] == 'replay':
        with open(job['file']) as fh:
            doc = json.load(fh)
        case = doc.get('case', doc)
        rec.record(case, check(case))
        return
    RUN.hyp_job(cases(job['stratum']), check, job['examples'], seed, rec,
                max_seconds=(150 if tier == 'quick' else 3000))


def tables_by_app(vers):
    out = {'django_evolution': {'django_project_version', 'django_evolution'},
           'contenttypes': {'django_content_type'}}
    for v in vers:
        for t, (a, _n, _f) in S.all_tables(v['spec']).items():
            out.setdefault(a, set()).add(t)
    return out


def table_of_statement(sql):
    m = re.search(r'(?:TABLE|INTO|UPDATE|FROM|ON)\s+"([^"]+)"', sql)
    return m.group(1) if m else None


def judge_trace(name, run, app_tables, atoms, labels, attributable=False):
    """The trace automaton.  Returns (n_pairs, fault_inside_pair)."""
    trace = run['trace']
    failed = not run['ok']
    evolving_at = [i for i, t in enumerate(trace) if t[0] == 'signal' and t[1] == 'evolving']
    terms = [i for i, t in enumerate(trace)
             if t[0] == 'signal' and t[1] in ('evolved', 'evolving_failed')]
    if len(evolving_at) > 1:
        atoms.append(['evolving_more_than_once', name])
    if evolving_at:
        first = evolving_at[0]
        if len(terms) != 1:
            atoms.append(['terminators', name, [trace[i][1] for i in terms]])
        else:
            t = trace[terms[0]]
            if failed and t[1] != 'evolving_failed':
                atoms.append(['wrong_terminator', name, t[1], 'run raised'])
            if not failed and t[1] != 'evolved':
                atoms.append(['wrong_terminator', name, t[1], 'run returned'])
            if t[1] == 'evolving_failed' and failed:
                pe = t[2].get('exception') or [None, None, None]
                e = run['exc']
                chain_types = [c[0] for c in e.get('chain', [])]
                if pe[0] != e['type'] and pe[0] not in chain_types:
                    atoms.append(['failed_payload_not_the_raised_exception', name, pe[0], e['type']])
            after = [x for x in trace[terms[0] + 1:] if x[0] == 'signal']
            if after:
                atoms.append(['signal_after_terminator', name, [x[1] for x in after]])
        # nothing may change between the start of evolve() and `evolving`: changes before it
        # are only the baseline install of Evolver.__init__ (django_evolution's own tables)
        early = [x for x in trace[:first] if x[0] == 'sql' and
                 table_of_statement(x[2]) not in ('django_project_version', 'django_evolution',
                                                  'django_migrations', 'django_content_type',
                                                  None)]
        if early:
            atoms.append(['change_before_evolving', name, early[0][2][:80]])
    else:
        if terms:
            atoms.append(['terminator_without_evolving', name])
        if any(x[0] == 'sql' for x in trace) and not failed:
            user = [x for x in trace if x[0] == 'sql' and table_of_statement(x[2]) not in
                    ('django_project_version', 'django_evolution', 'django_content_type',
                     'django_migrations', None)]
            if user:
                atoms.append(['changes_without_evolving', name, user[0][2][:80]])
    # pairs
    open_pairs = []
    n_pairs = 0
    fault_inside = False
    seen_cols = dict(run.get('known_cols') or {})
    for i, t in enumerate(trace):
        if t[0] == 'signal' and t[1] in PAIRS:
            open_pairs.append([t[1], t[2], 0, []])
        elif t[0] == 'signal' and t[1] in CLOSERS:
            opener = CLOSERS[t[1]]
            idx = None
            for j in range(len(open_pairs) - 1, -1, -1):
                p = open_pairs[j]
                if p[0] == opener and _payload(p[1]) == _payload(t[2]):
                    idx = j
                    break
            if idx is None:
                atoms.append(['closer_without_opener', name, t[1], _payload(t[2])])
                continue
            p = open_pairs.pop(idx)
            n_pairs += 1
            if p[0] == 'applying_evolution' and p[2] == 0:
                atoms.append(['pair_executed_nothing', name, p[0], _payload(p[1])])
            if p[0] == 'applying_evolution' and attributable:
                # every generated evolution <label> adds the column c_<label>
                app = p[1].get('app')
                done = set()
                for s_ in p[3]:
                    m_ = re.match(r'ALTER TABLE "%s_book" ADD COLUMN "c_(e\d+)"' % app, s_.strip())
                    if m_:
                        done.add(m_.group(1))
                    if s_.strip().startswith('CREATE TABLE "TEMP_TABLE"'):
                        done |= {l for l in re.findall(r'"c_(e\d+)"', s_)
                                 if l not in seen_cols.setdefault(app, set())}
                seen_cols.setdefault(app, set()).update(done)
                named = {l for l in (p[1].get('evolutions') or []) if re.match(r'e\d+$', l)}
                if done - named:
                    atoms.append(['pair_executed_unnamed_evolution', name, sorted(done - named)])
                if named - done:
                    atoms.append(['pair_names_evolution_not_executed', name,
                                  sorted(named - done)])
            if p[0] == 'creating_models':
                created = {table_of_statement(s) for s in p[3]
                           if s.lstrip().upper().startswith('CREATE TABLE')}
                app = p[1].get('app')
                names = {n.lower() for n in p[1].get('model_names') or []}
                mine = {tb for tb in created if tb in app_tables.get(app, ())}
                if names and not mine:
                    atoms.append(['created_models_without_create_table', name, _payload(p[1])])
        elif t[0] in ('sql', 'fault'):
            if t[0] == 'fault' and open_pairs:
                fault_inside = True
            tb = table_of_statement(t[2])
            for p in open_pairs:
                p[2] += 1
                p[3].append(t[2])
            evo = [p for p in open_pairs if p[0] == 'applying_evolution']
            if evo and tb and tb != 'TEMP_TABLE' and not tb.startswith('sqlite_'):
                if not any(tb in app_tables.get(p[1].get('app'), ()) for p in evo):
                    atoms.append(['statement_outside_payload_app', name, tb,
                                  [p[1].get('app') for p in evo]])
    if open_pairs and not failed:
        atoms.append(['opener_never_closed', name, [p[0] for p in open_pairs]])
    if run.get('evolve_lock') not in (0, None):
        atoms.append(['evolve_lock_not_released', name, run.get('evolve_lock')])
    return n_pairs, fault_inside


def _payload(p):
    return json.dumps({k: v for k, v in sorted(p.items()) if k != 'sender_db'}, sort_keys=True)


def check(case):
    from .. import findings as F
    from ..run import sha
    out = {'labels': ['entry:' + case['entry'], 'stratum:' + case.get('stratum', '?')],
           'atoms': [], 'nontrivial': False, 'evaluations': 0}
    atoms = out['atoms']
    h = case['history']
    pre_sql = []
    if case.get('from'):
        v0_, v1_, pre_sql = versions_from(case)
        vers = [v0_ or v1_, v1_]
        h = [case['from'], case['src'], case.get('soft_initial')]
        case = dict(case, fresh=v0_ is None)
    else:
        try:
            vers = H.versions(h)
        except (R.RefInvalid, KeyError, TypeError, AttributeError):
            out['rejected'] = 'ref_invalid'
            out['evaluations'] = 1
            return out
    n = len(vers) - 1
    purge_app = case.get('purge_app')
    if purge_app:
        dangling = any(f['target'] and f['target'][0] == purge_app
                       for a, _n, m in S.iter_models(vers[n]['spec']) if a != purge_app
                       for f in m['fields'])
        if dangling or purge_app not in vers[0]['spec']['apps'] or len(vers[0]['apps']) < 2:
            out['rejected'] = 'no_app_to_purge'
            out['evaluations'] = 1
            return out
        gone = copy.deepcopy(vers[n])
        gone['apps'] = [a for a in gone['apps'] if a != purge_app]
        gone['spec']['apps'].pop(purge_app, None)
        gone['evolutions'].pop(purge_app, None)
        vers = vers + [gone]
        n = len(vers) - 1
    fresh = bool(case.get('fresh'))
    if not fresh and n < 1:
        out['rejected'] = 'empty_history'
        out['evaluations'] = 1
        return out
    seq = [] if case.get('from') else H.pending_sequence(h, 0)
    if seq and not fresh:
        fl, _t = F.c03_flags({'mode': 'walk', 'spec': H.reference_start(h, vers, 0),
                              'seq': copy.deepcopy(seq), 'cuts': []}, {})
        if any(fl.values()):
            out['rejected'] = 'c03_flags'
            out['evaluations'] = 1
            return out
    app_tables = tables_by_app(vers)
    with P.Scratch('c17_') as sc:
        dirs = H.write_versions(sc, [vers[0], vers[n]])
        db = sc.sub('db.sqlite3')
        if fresh:
            # an empty database file; the sweep runs the fresh install of Vn
            import sqlite3
            sqlite3.connect(db).close()
        else:
            res = P.run_driver(dirs[0], db, {'steps': [
                c04.upgrade_step('api'),
                {'op': 'insert_rows', 'spec': vers[0]['spec'], 'rows': case['rows'],
                 'links': case['links']}]})
            if c04.run_failed('install', res, []):
                out['rejected'] = 'install_failed'
                out['evaluations'] = 1
                return out
            if pre_sql:
                res = P.run_driver(dirs[0], db, {'steps': [{'op': 'sql', 'statements': pre_sql}],
                                                 'dump': []})
                if c04.run_failed('pre', res, []):
                    out['rejected'] = 'pre_sql_failed'
                    out['evaluations'] = 1
                    return out
        up = c04.upgrade_step(case['entry'])
        if purge_app:
            up = {'op': 'evolve_api', 'purge': True, 'force': True}
        sweep = P.run_driver(dirs[1], db, {'steps': [
            {'op': 'fault_sweep', 'upgrade': up, 'max_faults': case.get('max_faults')}],
            'dump': []}, timeout=600)
    if sweep.get('driver_error') or 'sweep' not in sweep:
        atoms.append(['driver_error', str(sweep.get('driver_error'))[-300:]])
        return out
    sw = sweep['sweep']
    base = sw.get('baseline') or {}
    if base.get('child_error'):
        atoms.append(['driver_error', base['child_error'][-300:]])
        return out
    keys = []
    runs = [('baseline', base['run'], None)]
    for f in sw.get('faults', []):
        if not f['failed'].get('child_error'):
            runs.append(('fault', f['failed']['run'], f['k']))
        if not f['retry'].get('child_error'):
            runs.append(('retry', f['retry']['run'], f['k']))
    known_cols = {}
    if case.get('from') == 'c10':
        src = case['src']
        if src['start'][0] == 'evo':
            known_cols['pa'] = {'e%d' % (i + 1) for i in range(src['start'][1])}
        elif src['start'][0] == 'mig':
            known_cols['pa'] = {'e%d' % (i + 1) for i in range(src['k'])}
        if src['start'][0] != 'fresh':
            known_cols['pb'] = {'e1'}
    elif case.get('from') == 'c09':
        for a, info in case['src']['apps'].items():
            if info['state'] == 'installed':
                known_cols[a] = {'e%d' % (i + 1) for i in range(info['applied'])}
    for name, run, k in runs:
        out['evaluations'] += 1
        run['known_cols'] = {a: set(v) for a, v in known_cols.items()}
        np_, inside = judge_trace(name, run, app_tables, atoms, out['labels'],
                                  attributable=bool(case.get('from')))
        if np_ >= 2 or inside:
            keys.append(sha([h, name, k]))
        out['labels'].append('run:' + name)
        if inside:
            out['labels'].append('fault_inside_pair')
        if not any(t[0] == 'sql' for t in run['trace']):
            out['labels'].append('nothing_to_do')
    out['nontrivial'] = bool(keys)
    out['nontrivial_keys'] = keys
    out['sample'] = {'entry': case['entry'],
                     'baseline_trace': [t[:2] if t[0] == 'signal' else [t[0], t[2][:60]]
                                        for t in base['run']['trace']][:30]}
    return out


def atom_bucket(atom):
    return '%s:%s' % (atom[0], atom[1])


def candidates(case):
    for c in H.history_candidates(case):
        yield c
