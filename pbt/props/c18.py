"""C18 - batched changes rewrite each table once, never more than unbatched.

Rides on the C03 executions: the statement traces of the one-at-a-time (S),
bare-batch (B) and Evolver (E) runs are already recorded there."""
import copy
import json

from . import c03
from .. import specs as S
from .. import mutgen

ID = 'C18'
LEVEL = 'exploration'
RULE = ('The C03 space (small scope: sequences up to length 3 over the fixed alphabet, sampled '
        'in quick / exhaustive in thorough; random reference-model walks up to length 12). For '
        'every sequence valid one at a time, rebuilds are counted per original table '
        '(CREATE TABLE "TEMP_TABLE" ... ALTER TABLE "TEMP_TABLE" RENAME TO "<t>", mapped through '
        'the rename chain) in the S, B and E traces: rebuilds(B) <= rebuilds(S) and rebuilds(E) '
        '<= rebuilds(S) per table, and any maximal run of consecutive AddField (non-M2M), '
        'DeleteField (non-M2M), ChangeField without field_type/db_column and ChangeMeta on one '
        'model - however it is split over evolution labels - costs <= 1 rebuild of that table. '
        'Non-trivial: the one-at-a-time run rebuilt some table >= 2 times (there was something '
        'to save); distinct = SHA-1 of the case.')
ASSUMPTIONS = list(c03.ASSUMPTIONS) + [
    'rebuilds are recognised by the TEMP_TABLE idiom of the SQLite backend',
    'the single-rewrite clause is judged on sequences that consist of one mergeable run only',
]
MIN_EVALUATIONS = c03.MIN_EVALUATIONS
MAX_REJECT_RATE = c03.MAX_REJECT_RATE
EXHAUSTIVE = c03.EXHAUSTIVE
setup_worker = c03.setup_worker
candidates = c03.candidates


def mergeable(m, spec_before):
    k = m['kind']
    if k == 'AddField':
        return m['field']['kind'] != 'ManyToMany'
    if k == 'DeleteField':
        mm = S.get_model(spec_before, m['app'], m['model'])
        f = S.get_field(mm, m['name']) if mm else None
        return f is not None and f['kind'] != 'ManyToMany'
    if k == 'ChangeField':
        return not m.get('field_kind') and 'db_column' not in m['attrs']
    if k == 'ChangeMeta':
        return True
    return False


def single_run_model(case):
    """uid of the model if the whole sequence is one mergeable run on it."""
    from .. import findings as F
    seq = case['seq']
    if not seq:
        return None
    trail = F._trail(case)
    uid = None
    for i, m in enumerate(seq):
        if not mergeable(m, trail[i]):
            return None
        u = F._model_uid_at(trail, i, m)
        if uid is None:
            uid = u
        elif u != uid:
            return None
    return uid


def jobs(tier, scale=1.0):
    out = c03.jobs(tier, scale)
    per = int((120 if tier == 'quick' else 4000) * scale)
    for i in range(2 if tier == 'quick' else 4):
        out.append({'kind': 'hyp', 'stratum': 'mergeable_run', 'shard': 200 + i, 'examples': per})
    return out


from hypothesis import strategies as st      # noqa: E402
from .. import evolvecase as EC              # noqa: E402
from .. import refmodel as R                 # noqa: E402


@st.composite
def mergeable_run_cases(draw):
    """One model with a column of every kind and a run of 2-4 AddField /
    ChangeField mutations (no type change, no db_column: the mergeable ones)
    touching every kind of attribute (max_length, null+initial, unique,
    max_digits/decimal_places, db_index); half the runs also get a DeleteField
    (F-C18-1's trigger, so that finding stays observed)."""
    F, M = S.new_field, S.new_model
    spec = S.new_project()
    S.add_model(spec, 'pa', M('Alpha', [
        F('a', 'Char', max_length=20), F('b', 'Integer', null=True), F('c', 'BigInteger'),
        F('d', 'Decimal', max_digits=8, decimal_places=2), F('name', 'Text', null=True)]))
    spec = mutgen.ensure_uids(spec)
    feats = S.Features(two_apps=False, meta=False, relations=False, m2m=False, db_column=False,
                       positive=False)
    kinds = ['AddField', 'ChangeField', 'ChangeField']
    if draw(st.booleans()):
        kinds.append('DeleteField')
    opts = mutgen.WalkOpts(kinds=kinds, type_changes=False, min_len=2, max_len=4,
                           avoid={'index_cover', 'dbcol_dbindex', 'dbindex_with_rebuild'})
    seq, _final = draw(mutgen.walks(spec, feats, opts))
    keep, cur = [], spec
    for m in seq:
        if m['kind'] == 'ChangeField' and ('db_column' in m['attrs'] or m.get('field_kind')):
            continue
        try:
            nxt = R.apply(cur, m, strict=True)
        except Exception:
            continue
        keep.append(m)
        cur = nxt
    rows, links = draw(EC.rows_for(spec, keep, 2))
    n = len(keep)
    cuts = sorted(set(draw(st.lists(st.integers(1, max(1, n - 1)), max_size=1))))
    return {'mode': 'walk', 'spec': spec, 'seq': keep, 'rows': rows, 'links': links, 'cuts': cuts}


def run_job(job, seed, rec, tier):
    from .. import run as RUN
    setup_worker()
    if job['kind'] == 'hyp' and job.get('stratum') == 'mergeable_run':
        RUN.hyp_job(mergeable_run_cases(), check, job['examples'], seed, rec,
                    max_seconds=(100 if tier == 'quick' else 3000))
        return
    if job['kind'] == 'replay':
        with open(job['file']) as fh:
            doc = json.load(fh)
        case = doc.get('case', doc)
        rec.record(case, check(case))
        return
    if job['kind'] == 'small':
        off = seed % job['stride']
        for k, idxs in enumerate(c03.small_sequences()):
            if k % job['of'] != job['shard']:
                continue
            # every sequence of length <= 2 runs in every tier; longer ones are strided
            if len(idxs) > 2 and (k // job['of']) % job['stride'] != off:
                continue
            n = len(idxs)
            cuts = [] if n < 2 else [1 + (k % (n - 1))]
            case = c03.small_case(idxs, cuts)
            rec.record({'mode': 'small', 'idxs': list(idxs), 'cuts': cuts}, check(case))
        return
    RUN.hyp_job(c03.random_cases(job['stratum']), check, job['examples'], seed, rec,
                max_seconds=(100 if tier == 'quick' else 3000))


def check(case):
    out3 = c03.check(case)
    case = c03.expand(case)
    out = {'labels': [l for l in out3.get('labels', []) if l.startswith(('mut:', 'len:', 'flag:'))
                      or l in ('barrier', 'evolver_pipeline', 'multi_label_split',
                               'S_rebuilt_a_table_twice')],
           'atoms': [], 'nontrivial': False}
    if out3.get('rejected'):
        out['rejected'] = out3['rejected']
        return out
    out['atoms'] = list(out3.get('c18_atoms') or [])
    rb = out3.get('rebuilds') or {}
    out['rebuilds'] = rb
    uid = single_run_model(case)
    if uid is not None:
        out['labels'].append('single_mergeable_run')
        for side in ('B', 'E'):
            n = (rb.get(side) or {}).get(uid, 0)
            if n > 1:
                out['atoms'].append(['run_not_single_rewrite', side, uid, n])
    out['nontrivial'] = max((rb.get('S') or {}).values() or [0]) >= 2
    # which pairs of op kinds met inside one model's run (the per-pair probe)
    kinds = [m['kind'] for m in case['seq']]
    for a, b in zip(kinds, kinds[1:]):
        out['labels'].append('pair:%s>%s' % (a, b))
    out['sample'] = {'seq': out3.get('sample', {}).get('seq'), 'rebuilds': rb,
                     'cuts': case.get('cuts')}
    return out


def atom_bucket(atom):
    return '%s:%s' % (atom[0], atom[1] if atom[0] == 'run_not_single_rewrite' else '')
