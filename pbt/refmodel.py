"""Reference semantics of every mutation on specs (and on rows).

Written from docs/mutations.rst, independent of the package's simulate().
`apply(spec, mutation)` returns a new spec or raises RefInvalid when the
documented precondition does not hold.  `validate(spec)` checks that a spec is
a valid Django model set (so that the "freshly created" side exists).
"""
import copy

from . import specs as S

CHANGEABLE = ('db_column', 'db_index', 'db_table', 'decimal_places',
              'max_digits', 'max_length', 'null', 'unique')


class RefInvalid(Exception):
    pass


def need(cond, msg):
    if not cond:
        raise RefInvalid(msg)


def validate(spec):
    tables = set()
    names = set()
    for app, name, m in S.iter_models(spec):
        t = S.table_of(app, m)
        need(t not in tables, 'duplicate table %s' % t)
        tables.add(t)
    for app, name, m in S.iter_models(spec):
        cols = {S.pk_of(m)}
        fnames = {S.pk_of(m)}
        for f in m['fields']:
            need(f['name'] not in fnames, 'duplicate field')
            fnames.add(f['name'])
            if f['kind'] in S.REL_KINDS:
                need(f['target'] and S.get_model(spec, *f['target']) is not None,
                     'dangling relation %s.%s.%s' % (app, name, f['name']))
            if f['kind'] == 'ManyToMany':
                t = S.m2m_table_of(app, m, f)
                need(t not in tables, 'duplicate m2m table %s' % t)
                tables.add(t)
                continue
            c = S.column_of(f)
            need(c not in cols, 'duplicate column %s' % c)
            cols.add(c)
            if f['kind'] == 'Char':
                need(f['max_length'], 'char without max_length')
            if f['kind'] == 'Decimal':
                need(f['max_digits'] is not None and f['decimal_places'] is not None and
                     f['max_digits'] >= f['decimal_places'] >= 0, 'bad decimal')
        colnames = {f['name'] for f in m['fields'] if f['kind'] != 'ManyToMany'}
        need(S.all_meta_refs(m) <= colnames,
             'meta refers to missing field in %s.%s: %s' % (app, name, S.all_meta_refs(m) - colnames))
        for prop in ('unique_together', 'index_together'):
            tups = [tuple(t) for t in m[prop]]
            need(len(tups) == len(set(tups)), 'duplicate %s entry' % prop)
        unnamed = [tuple(ix['fields']) for ix in m['indexes'] if not ix.get('name')]
        need(len(unnamed) == len(set(unnamed)), 'duplicate unnamed index')
        for ix in m['indexes']:
            if ix.get('name'):
                need(ix['name'] not in names, 'dup index name')
                names.add(ix['name'])
            need(ix['fields'], 'empty index')
            if ix.get('condition'):
                need(ix.get('name'), 'conditional index needs name')
        for c in m['constraints']:
            need(c['name'] not in names, 'dup constraint name')
            names.add(c['name'])
    return True


def _model(spec, mut, key='model'):
    need(mut['app'] in spec['apps'], 'no app')
    m = S.get_model(spec, mut['app'], mut[key])
    need(m is not None, 'no model')
    return m


def apply(spec, mut, strict=True):
    """Return the spec after `mut`.  With strict=True the result must also be a
    valid Django model set."""
    spec = copy.deepcopy(spec)
    k = mut['kind']
    if k == 'AddField':
        m = _model(spec, mut)
        f = copy.deepcopy(mut['field'])
        need(S.get_field(m, f['name']) is None and f['name'] != S.pk_of(m), 'field exists')
        if f['kind'] != 'ManyToMany' and not f['null']:
            need(mut.get('initial') is not None, 'initial required')
        m['fields'].append(f)
    elif k == 'DeleteField':
        m = _model(spec, mut)
        f = S.get_field(m, mut['name'])
        need(f is not None, 'no field')
        # the tool shrinks unique_together itself
        m['unique_together'] = [t2 for t2 in
                                ([n for n in t if n != mut['name']] for t in m['unique_together'])
                                if t2]
        m['fields'].remove(f)
    elif k == 'ChangeField':
        m = _model(spec, mut)
        f = S.get_field(m, mut['name'])
        need(f is not None, 'no field')
        if mut.get('field_kind'):
            nk = mut['field_kind']
            need(f['kind'] not in S.REL_KINDS and nk not in S.REL_KINDS, 'rel type change')
            # a type change resets attributes to exactly those given
            nf = S.new_field(f['name'], nk)
            nf['max_length'] = nf['max_digits'] = nf['decimal_places'] = None
            for a, v in mut['attrs'].items():
                nf[a] = v
            if 'uid' in f:
                nf['uid'] = f['uid']
            f.clear()
            f.update(nf)
        else:
            for a, v in mut['attrs'].items():
                if a == 'target':
                    # hinted edits only: the relation is re-targeted in models.py
                    need(f['kind'] in S.REL_KINDS, 'target on non-relation')
                    f['target'] = list(v)
                    continue
                need(a in CHANGEABLE, 'unsupported attr %s' % a)
                f[a] = v
        if 'null' in mut['attrs'] and not mut['attrs']['null'] and f['kind'] != 'ManyToMany':
            need(mut.get('initial') is not None, 'initial required')
    elif k == 'RenameField':
        m = _model(spec, mut)
        if mut['old'] == S.pk_of(m):
            # renaming the (implicit) primary key
            need(S.get_field(m, mut['new']) is None and not mut.get('db_column'), 'pk rename')
            m['pk'] = mut['new']
            if strict:
                validate(spec)
            return spec
        f = S.get_field(m, mut['old'])
        need(f is not None, 'no field')
        need(S.get_field(m, mut['new']) is None and mut['new'] != S.pk_of(m), 'target exists')
        f['name'] = mut['new']
        if f['kind'] == 'ManyToMany':
            f['db_table'] = mut.get('db_table') or None
        else:
            f['db_column'] = mut.get('db_column') or None
    elif k == 'ChangeMeta':
        m = _model(spec, mut)
        need(mut['prop'] in ('unique_together', 'index_together', 'indexes', 'constraints'),
             'bad prop')
        m[mut['prop']] = copy.deepcopy(mut['value'])
    elif k == 'RenameModel':
        m = _model(spec, mut, 'old')
        need(S.get_model(spec, mut['app'], mut['new']) is None, 'target model exists')
        models = spec['apps'][mut['app']]['models']
        # keep dict order stable: rebuild
        new_models = {}
        for n, mm in models.items():
            if n == mut['old']:
                mm['name'] = mut['new']
                default = S.default_table(mut['app'], mut['new'])
                mm['db_table'] = None if mut['db_table'] == default else mut['db_table']
                new_models[mut['new']] = mm
            else:
                new_models[n] = mm
        spec['apps'][mut['app']]['models'] = new_models
        for a, n, mm in S.iter_models(spec):
            for f in mm['fields']:
                if f['target'] and tuple(f['target']) == (mut['app'], mut['old']):
                    f['target'] = [mut['app'], mut['new']]
    elif k == 'DeleteModel':
        _model(spec, mut)
        del spec['apps'][mut['app']]['models'][mut['model']]
    elif k == 'DeleteApplication':
        need(mut['app'] in spec['apps'], 'no app')
        spec['apps'][mut['app']]['models'] = {}
    elif k == 'RenameAppLabel':
        need(mut['old'] in spec['apps'], 'no app')
        need(mut['new'] not in spec['apps'], 'app exists')
        spec['apps'][mut['new']] = spec['apps'].pop(mut['old'])
        for a, n, mm in S.iter_models(spec):
            for f in mm['fields']:
                if f['target'] and f['target'][0] == mut['old']:
                    f['target'] = [mut['new'], f['target'][1]]
    elif k == 'SQLMutation':
        pass
    else:
        raise ValueError(k)
    if strict:
        validate(spec)
    return spec


def apply_all(spec, muts, strict=True):
    for m in muts:
        spec = apply(spec, m, strict=strict)
    return spec


def touched_models(spec_before, mut):
    """(app, Model) identities (in spec_before terms) that `mut` names or
    relates to, for C01's "neither names nor relates to" clause."""
    out = set()
    k = mut['kind']
    app = mut['app']
    if k == 'DeleteApplication':
        names = [(app, n) for n in spec_before['apps'].get(app, {'models': {}})['models']]
    elif k == 'RenameAppLabel':
        names = [(mut['old'], n) for n in spec_before['apps'].get(mut['old'], {'models': {}})['models']]
    elif k == 'RenameModel':
        names = [(app, mut['old'])]
    elif k == 'SQLMutation':
        names = []
    else:
        names = [(app, mut['model'])]
    for ident in names:
        out.add(ident)
        m = S.get_model(spec_before, *ident)
        if m is None:
            continue
        for f in m['fields']:
            if f['target']:
                out.add(tuple(f['target']))
        for a, n, fn in S.relations_to(spec_before, *ident):
            out.add((a, n))
    if k == 'AddField' and mut['field']['target']:
        out.add(tuple(mut['field']['target']))
    return out
