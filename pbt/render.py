"""spec -> Django model classes / Q objects / django-evolution mutation objects.

All functions import Django lazily so that `specs.py` stays importable without
Django.
"""
import copy
import warnings

from . import specs as S

FIELD_CLASS_NAMES = {
    'Char': 'CharField', 'Text': 'TextField', 'Integer': 'IntegerField',
    'BigInteger': 'BigIntegerField', 'PositiveInteger': 'PositiveIntegerField',
    'Boolean': 'BooleanField', 'Decimal': 'DecimalField',
    'DateTime': 'DateTimeField', 'ForeignKey': 'ForeignKey',
    'OneToOne': 'OneToOneField', 'ManyToMany': 'ManyToManyField',
}


def field_class(kind):
    from django.db import models
    return getattr(models, FIELD_CLASS_NAMES[kind])


def to_q(q):
    from django.db.models import Q
    if q is None:
        return None
    op = q['op']
    if op == 'leaf':
        key = q['field'] if q['lookup'] == 'exact' and q.get('bare') else \
            '%s__%s' % (q['field'], q['lookup'])
        return Q(**{key: q['value']})
    if op == 'not':
        return ~to_q(q['child'])
    kids = [to_q(c) for c in q['children']]
    out = kids[0]
    if len(kids) == 1:
        # single-child nesting: Q(Q(...))
        return Q(out)
    for k in kids[1:]:
        if op == 'and':
            out = out & k
        elif op == 'or':
            out = out | k
        else:
            out = out ^ k
    return out


def field_kwargs(f, for_mutation=False):
    """Keyword arguments of the Django field / AddField for a field spec."""
    kw = {}
    kind = f['kind']
    if kind == 'ManyToMany':
        if f['db_table']:
            kw['db_table'] = f['db_table']
        return kw
    if f['null']:
        kw['null'] = True
    if kind in ('ForeignKey', 'OneToOne'):
        if kind == 'ForeignKey' and not f['db_index']:
            kw['db_index'] = False
    elif f['db_index']:
        kw['db_index'] = True
    if f['unique'] and (kind != 'OneToOne' or for_mutation):
        # a hinted AddField of a OneToOneField carries unique=True (the signature records it)
        kw['unique'] = True
    if f['db_column']:
        kw['db_column'] = f['db_column']
    if kind == 'Char':
        kw['max_length'] = f['max_length']
    if kind == 'Decimal':
        kw['max_digits'] = f['max_digits']
        kw['decimal_places'] = f['decimal_places']
    return kw


def make_field(f):
    from django.db import models
    cls = field_class(f['kind'])
    kw = field_kwargs(f)
    if f['kind'] in S.REL_KINDS:
        target = '%s.%s' % tuple(f['target'])
        kw['related_name'] = '+'
        if f['kind'] != 'ManyToMany':
            kw['on_delete'] = models.CASCADE
        return cls(target, **kw)
    return cls(**kw)


def make_index(ix):
    from django.db import models
    kw = {'fields': list(ix['fields'])}
    if ix.get('name'):
        kw['name'] = ix['name']
    if ix.get('condition'):
        kw['condition'] = to_q(ix['condition'])
    return models.Index(**kw)


def make_constraint(c):
    from django.db import models
    if c['type'] == 'check':
        return models.CheckConstraint(name=c['name'], check=to_q(c['check']))
    kw = {'name': c['name'], 'fields': tuple(c['fields'])}
    if c.get('condition'):
        kw['condition'] = to_q(c['condition'])
    return models.UniqueConstraint(**kw)


def build_models(spec, registry=None, module='pbt_generated'):
    """Create Django model classes for a spec.

    registry: a django.apps.registry.Apps to register in (a private one is
    created when None).  Returns (registry, {(app, Model): cls}).
    """
    from django.apps.registry import Apps
    from django.db import models
    if registry is None:
        registry = Apps()
    out = {}
    with warnings.catch_warnings():
        warnings.simplefilter('ignore', category=Warning)
        warnings.filterwarnings('error', message='.*was already registered.*')
        for app, name, m in S.iter_models(spec):
            meta_attrs = {'app_label': app, 'apps': registry}
            if m['db_table']:
                meta_attrs['db_table'] = m['db_table']
            if m['unique_together']:
                meta_attrs['unique_together'] = [tuple(t) for t in m['unique_together']]
            if m['index_together']:
                meta_attrs['index_together'] = [tuple(t) for t in m['index_together']]
            if m['indexes']:
                meta_attrs['indexes'] = [make_index(ix) for ix in m['indexes']]
            if m['constraints']:
                meta_attrs['constraints'] = [make_constraint(c) for c in m['constraints']]
            attrs = {'__module__': module, 'Meta': type('Meta', (), meta_attrs)}
            if S.pk_of(m) != 'id':
                attrs[S.pk_of(m)] = models.AutoField(primary_key=True)
            for f in m['fields']:
                attrs[f['name']] = make_field(f)
            out[(app, name)] = type(str(name), (models.Model,), attrs)
    return registry, out


def create_tables(model_classes, alias):
    """Create tables with Django's own schema editor (what EvolveAppTask does
    for new models, via sql_create_models)."""
    from django.db import connections
    conn = connections[alias]
    with conn.schema_editor() as editor:
        for cls in model_classes:
            editor.create_model(cls)


def project_sig(model_map, apps=()):
    """ProjectSignature built the way ProjectSignature.from_database does
    (AppSignature + ModelSignature.from_model per model).  `apps` lists app
    labels that are installed even if they have no models (left)."""
    from django_evolution.signature import (AppSignature, ModelSignature,
                                            ProjectSignature)
    sig = ProjectSignature()
    for app in apps:
        if sig.get_app_sig(app) is None:
            sig.add_app_sig(AppSignature(app_id=app))
    for (app, name), cls in model_map.items():
        app_sig = sig.get_app_sig(app)
        if app_sig is None:
            app_sig = AppSignature(app_id=app)
            sig.add_app_sig(app_sig)
        app_sig.add_model_sig(ModelSignature.from_model(cls))
    return sig


# ---------------------------------------------------------------------------
# mutations
# ---------------------------------------------------------------------------

def index_value(ix):
    d = {'fields': list(ix['fields'])}
    if ix.get('name'):
        d['name'] = ix['name']
    if ix.get('condition'):
        d['condition'] = to_q(ix['condition'])
    return d


def constraint_value(c):
    from django.db import models
    if c['type'] == 'check':
        return {'type': models.CheckConstraint, 'name': c['name'],
                'check': to_q(c['check'])}
    d = {'type': models.UniqueConstraint, 'name': c['name'],
         'fields': tuple(c['fields'])}
    if c.get('condition'):
        d['condition'] = to_q(c['condition'])
    return d


def meta_value(prop, value):
    if prop in ('unique_together', 'index_together'):
        return [tuple(t) for t in value]
    if prop == 'indexes':
        return [index_value(ix) for ix in value]
    if prop == 'constraints':
        return [constraint_value(c) for c in value]
    raise ValueError(prop)


def initial_value(init):
    """Mutation-level initial from its data form."""
    if isinstance(init, dict) and 'callable' in init:
        text = init['callable']
        return lambda: text
    if isinstance(init, dict) and 'decimal' in init:
        from decimal import Decimal
        return Decimal(init['decimal'])
    if isinstance(init, dict) and 'datetime' in init:
        import datetime
        return datetime.datetime.fromisoformat(init['datetime'])
    return init


def to_mutation(m):
    """Build a *fresh* django-evolution mutation object from its data form."""
    from django_evolution import mutations as M
    k = m['kind']
    if k == 'MoveToDjangoMigrations':
        if m.get('mark_applied') is None:
            return M.MoveToDjangoMigrations()
        return M.MoveToDjangoMigrations(mark_applied=list(m['mark_applied']))
    if k == 'AddField':
        f = m['field']
        kw = field_kwargs(f, for_mutation=True)
        if f['kind'] == 'OneToOne':
            kw['unique'] = True
        if f['kind'] in S.REL_KINDS:
            kw['related_model'] = '%s.%s' % tuple(f['target'])
        if m.get('initial') is not None:
            kw['initial'] = initial_value(m['initial'])
        return M.AddField(m['model'], f['name'], field_class(f['kind']), **kw)
    if k == 'DeleteField':
        return M.DeleteField(m['model'], m['name'])
    if k == 'ChangeField':
        kw = dict(m['attrs'])
        if m.get('field_kind'):
            kw['field_type'] = field_class(m['field_kind'])
        if m.get('initial') is not None:
            kw['initial'] = initial_value(m['initial'])
        return M.ChangeField(m['model'], m['name'], **kw)
    if k == 'RenameField':
        kw = {}
        if m.get('db_column'):
            kw['db_column'] = m['db_column']
        if m.get('db_table'):
            kw['db_table'] = m['db_table']
        return M.RenameField(m['model'], m['old'], m['new'], **kw)
    if k == 'ChangeMeta':
        return M.ChangeMeta(m['model'], m['prop'], meta_value(m['prop'], m['value']))
    if k == 'RenameModel':
        return M.RenameModel(m['old'], m['new'], db_table=m['db_table'])
    if k == 'DeleteModel':
        return M.DeleteModel(m['model'])
    if k == 'DeleteApplication':
        return M.DeleteApplication()
    if k == 'RenameAppLabel':
        return M.RenameAppLabel(m['old'], m['new'],
                                legacy_app_label=m.get('legacy'),
                                model_names=m.get('model_names'))
    if k == 'SQLMutation':
        return M.SQLMutation(m['tag'], list(m.get('sql') or ['SELECT 1;']),
                             update_func=_noop_update)
    raise ValueError(k)


def _noop_update(simulation):
    return None


def mutation_app(m):
    return m['app']


def describe(m):
    """Short text for labels/samples."""
    k = m['kind']
    if k == 'AddField':
        return 'AddField(%s.%s:%s)' % (m['model'], m['field']['name'], m['field']['kind'])
    if k == 'ChangeField':
        return 'ChangeField(%s.%s,%s%s)' % (m['model'], m['name'], sorted(m['attrs']),
                                           ',type=' + m['field_kind'] if m.get('field_kind') else '')
    if k == 'ChangeMeta':
        return 'ChangeMeta(%s,%s)' % (m['model'], m['prop'])
    if k == 'RenameField':
        return 'RenameField(%s.%s->%s)' % (m['model'], m['old'], m['new'])
    if k == 'RenameModel':
        return 'RenameModel(%s->%s,%s)' % (m['old'], m['new'], m['db_table'])
    if k == 'DeleteField':
        return 'DeleteField(%s.%s)' % (m['model'], m['name'])
    if k == 'DeleteModel':
        return 'DeleteModel(%s)' % m['model']
    return k
