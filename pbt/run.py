"""Runner: python -m pbt.run <ID> [--tier quick|thorough] [--replay FILE]

Exit 0: property held on everything explored (KNOWN-FINDING lines possible).
Exit 1: "VIOLATION property=<ID> replay=<path>" printed.
Exit 2: harness error / inconclusive (never a violation).
See DESIGN.md sections 2.4 and 6.
"""
import argparse
import collections
import hashlib
import importlib
import json
import multiprocessing
import os
import sys
import time
import traceback

VERIF = os.path.dirname(os.path.dirname(os.path.abspath(__file__)))
MAX_FAIL_KEEP = 40          # failing cases kept per shard
MAX_SAMPLES = 4


def canon(obj):
    return json.dumps(obj, sort_keys=True, default=str)


def sha(obj):
    return hashlib.sha1(canon(obj).encode('utf8')).hexdigest()


def derive_seed(seed, prop, shard):
    h = hashlib.sha1(('%s/%s/%s' % (seed, prop, shard)).encode()).hexdigest()
    return int(h[:12], 16)


def load_findings(prop_id):
    path = os.path.join(VERIF, 'known_findings.json')
    if not os.path.exists(path):
        return []
    with open(path) as fh:
        data = json.load(fh)
    return [f for f in data.get('findings', [])
            if f['property'] == prop_id and f.get('status') == 'open']


class Recorder(object):
    """Collects what a shard explored."""

    def __init__(self, prop, findings):
        self.prop = prop
        self.findings = findings
        self.evaluations = 0
        self.nontrivial = set()
        self.labels = collections.Counter()
        self.rejected = collections.Counter()
        self.samples = []
        self.failures = []
        self.fail_buckets = collections.Counter()
        self.known_hits = collections.Counter()
        self.known_examples = {}
        self.extra = collections.Counter()

    def record(self, case, outcome):
        from . import findings as F
        self.evaluations += outcome.get('evaluations', 1)
        for lab in outcome.get('labels', ()):
            self.labels[lab] += 1
        for k, v in (outcome.get('counters') or {}).items():
            self.extra[k] += v
        if outcome.get('rejected'):
            self.rejected[outcome['rejected']] += 1
            return
        if outcome.get('nontrivial'):
            keys = outcome.get('nontrivial_keys') or [sha(case)]
            for k in keys:
                self.nontrivial.add(k)
            if len(self.samples) < MAX_SAMPLES:
                self.samples.append(outcome.get('sample') or case)
        atoms = outcome.get('atoms') or []
        if atoms:
            remaining = list(atoms)
            for f in self.findings:
                fn = F.EXPLAINERS[f['explainer']]
                before = len(remaining)
                remaining = fn(case, outcome, remaining)
                if len(remaining) < before:
                    self.known_hits[f['id']] += 1
                    self.known_examples.setdefault(f['id'], case)
            if remaining:
                bucket = bucket_of(self.prop, remaining)
                self.fail_buckets[bucket] += 1
                if len([1 for b, _c, _a in self.failures if b == bucket]) < 3 and \
                        len(self.failures) < MAX_FAIL_KEEP:
                    self.failures.append((bucket, case, remaining))

    def result(self):
        return {
            'evaluations': self.evaluations,
            'nontrivial': sorted(self.nontrivial),
            'labels': dict(self.labels),
            'rejected': dict(self.rejected),
            'samples': self.samples,
            'failures': self.failures,
            'fail_buckets': dict(self.fail_buckets),
            'known_hits': dict(self.known_hits),
            'known_examples': self.known_examples,
            'extra': dict(self.extra),
        }


def bucket_of(prop, atoms):
    fn = getattr(prop, 'atom_bucket', None)
    keys = set()
    for a in atoms:
        keys.add(fn(a) if fn else str(a[0]))
    return ' | '.join(sorted(keys))


def hyp_job(strategy, check, n, seed, rec, max_seconds=None):
    """Drive `check` with Hypothesis-generated cases.  Never raises on a
    violation: outcomes are recorded (phase 1, collect)."""
    import hypothesis
    from hypothesis import HealthCheck, Phase, given, settings
    t0 = time.time()
    state = {'stop': False}

    @hypothesis.seed(seed)
    @settings(max_examples=n, deadline=None, database=None, derandomize=False,
              report_multiple_bugs=False, suppress_health_check=list(HealthCheck),
              phases=[Phase.generate])
    @given(strategy)
    def test(case):
        if state['stop']:
            return
        if max_seconds and time.time() - t0 > max_seconds:
            state['stop'] = True
            rec.extra['time_budget_hit'] += 1
            return
        outcome = check(case)
        rec.record(case, outcome)

    test()


def _worker(args):
    prop_id, job, seed, tier = args
    try:
        sys.path.insert(0, VERIF)
        prop = importlib.import_module('pbt.props.%s' % prop_id.lower())
        rec = Recorder(prop, load_findings(prop_id))
        prop.run_job(job, seed, rec, tier)
        out = rec.result()
        out['job'] = job
        return out
    except BaseException:
        return {'error': traceback.format_exc(), 'job': job}


def replay_files(prop_id):
    d = os.path.join(VERIF, 'regress', prop_id)
    if not os.path.isdir(d):
        return []
    return sorted(os.path.join(d, f) for f in os.listdir(d) if f.endswith('.json'))


def write_replay(prop_id, case, atoms, seed, extra=None):
    d = os.path.join(VERIF, 'replays', prop_id)
    os.makedirs(d, exist_ok=True)
    doc = {'property': prop_id, 'case': case, 'atoms': atoms, 'seed': seed,
           'repo_head': repo_head()}
    if extra:
        doc.update(extra)
    path = os.path.join(d, sha(case)[:16] + '.json')
    with open(path, 'w') as fh:
        json.dump(doc, fh, indent=1, sort_keys=True, default=str)
    return path


def repo_head():
    try:
        import subprocess
        return subprocess.check_output(
            ['git', '-C', os.environ.get('VERIF_REPO', '/repo'), 'rev-parse', 'HEAD'],
            stderr=subprocess.DEVNULL).decode().strip()
    except Exception:
        return None


def _shrink_worker(args):
    prop_id, bucket, case, seed = args
    try:
        sys.path.insert(0, VERIF)
        from . import shrink as SH
        from . import findings as F
        prop = importlib.import_module('pbt.props.%s' % prop_id.lower())
        findings = load_findings(prop_id)
        if hasattr(prop, 'setup_worker'):
            prop.setup_worker()

        def remaining_atoms(c):
            out = prop.check(c)
            if out.get('rejected'):
                return []
            atoms = out.get('atoms') or []
            for f in findings:
                atoms = F.EXPLAINERS[f['explainer']](c, out, atoms)
            return atoms

        def still_fails(c):
            atoms = remaining_atoms(c)
            return bool(atoms) and bucket_of(prop, atoms) == bucket

        cands = getattr(prop, 'candidates', None)
        if cands is None:
            return bucket, case, remaining_atoms(case), 0
        budget = int(os.environ.get('VERIF_SHRINK_CHECKS',
                                    str(getattr(prop, 'SHRINK_CHECKS', 300))))
        best, checks = SH.shrink(case, cands, still_fails, max_checks=budget)
        return bucket, best, remaining_atoms(best), checks
    except BaseException:
        return bucket, case, [['shrink_error', traceback.format_exc()[-800:]]], -1


def main(argv=None):
    ap = argparse.ArgumentParser()
    ap.add_argument('prop')
    ap.add_argument('--tier', default=os.environ.get('VERIF_TIER', 'quick'))
    ap.add_argument('--replay')
    ap.add_argument('--procs', type=int, default=int(os.environ.get('VERIF_PROCS', '16')))
    ap.add_argument('--scale', type=float, default=float(os.environ.get('VERIF_SCALE', '1')))
    ap.add_argument('--no-evidence', action='store_true')
    ap.add_argument('--dump-known', help='write one observed example case per open finding (JSON)')
    ap.add_argument('--dump-failures', help='write all collected failing cases to this file')
    ap.add_argument('--max-buckets', type=int, default=0)
    args = ap.parse_args(argv)
    prop_id = args.prop.upper()
    tier = args.tier if args.tier in ('quick', 'thorough') else 'quick'
    seed = int(os.environ.get('VERIF_SEED', '1') or '1')
    os.environ.setdefault('PYTHONHASHSEED', '0')
    sys.path.insert(0, VERIF)
    prop = importlib.import_module('pbt.props.%s' % prop_id.lower())
    t0 = time.time()

    if args.replay:
        return do_replay(prop, prop_id, args.replay)

    jobs = [{'kind': 'replay', 'file': f} for f in replay_files(prop_id)]
    jobs += prop.jobs(tier, args.scale)
    work = [(prop_id, job, derive_seed(seed, prop_id, i), tier) for i, job in enumerate(jobs)]
    ctx = multiprocessing.get_context('fork')
    results = []
    with ctx.Pool(min(args.procs, max(1, len(work)))) as pool:
        for r in pool.imap_unordered(_worker, work, chunksize=1):
            results.append(r)

    errors = [r for r in results if r.get('error')]
    if errors:
        for r in errors[:3]:
            sys.stderr.write('HARNESS ERROR in job %r:\n%s\n' % (r['job'], r['error']))
        print('HARNESS-ERROR property=%s jobs_failed=%d' % (prop_id, len(errors)))
        return 2

    merged = {'evaluations': 0, 'nontrivial': set(), 'labels': collections.Counter(),
              'rejected': collections.Counter(), 'samples': [], 'failures': [],
              'fail_buckets': collections.Counter(), 'known_hits': collections.Counter(),
              'known_examples': {}, 'extra': collections.Counter()}
    for r in sorted(results, key=lambda r: canon(r['job'])):
        merged['evaluations'] += r['evaluations']
        merged['nontrivial'].update(r['nontrivial'])
        merged['labels'].update(r['labels'])
        merged['rejected'].update(r['rejected'])
        merged['extra'].update(r['extra'])
        merged['fail_buckets'].update(r['fail_buckets'])
        merged['known_hits'].update(r['known_hits'])
        for k, v in r['known_examples'].items():
            merged['known_examples'].setdefault(k, v)
        for s in r['samples']:
            if len(merged['samples']) < MAX_SAMPLES:
                merged['samples'].append(s)
        merged['failures'].extend(r['failures'])

    if args.dump_failures:
        with open(args.dump_failures, 'w') as fh:
            json.dump(merged['failures'], fh, indent=1, default=str)
    if args.dump_known:
        with open(args.dump_known, 'w') as fh:
            json.dump(merged['known_examples'], fh, indent=1, default=str)

    # phase 2: shrink one representative per unexplained bucket
    violations = []
    by_bucket = {}
    for bucket, case, atoms in merged['failures']:
        cur = by_bucket.get(bucket)
        if cur is None or len(canon(case)) < len(canon(cur[0])):
            by_bucket[bucket] = (case, atoms)
    max_buckets = args.max_buckets or (3 if tier == 'quick' else 12)
    for b, n in sorted(merged['fail_buckets'].items(), key=lambda kv: -kv[1]):
        sys.stderr.write('UNEXPLAINED %5d  %s\n' % (n, b[:200]))
    chosen = sorted(by_bucket.items(), key=lambda kv: (-merged['fail_buckets'][kv[0]], kv[0]))
    chosen = chosen[:max_buckets]
    if chosen:
        swork = [(prop_id, b, c, seed) for b, (c, _a) in chosen]
        with ctx.Pool(min(args.procs, len(swork))) as pool:
            for bucket, best, atoms, checks in pool.imap_unordered(_shrink_worker, swork):
                if not atoms:
                    # the shrunk case no longer fails (flaky?) - report the original
                    best, atoms = by_bucket[bucket]
                path = write_replay(prop_id, best, atoms, seed,
                                    {'bucket': bucket, 'shrink_checks': checks,
                                     'occurrences': merged['fail_buckets'][bucket]})
                violations.append((bucket, path))

    findings = load_findings(prop_id)
    for f in findings:
        n = merged['known_hits'].get(f['id'], 0)
        if n:
            print('KNOWN-FINDING: property=%s %s: %s (observed %d times)'
                  % (prop_id, f['id'], f['what'], n))
        else:
            print('KNOWN-FINDING: property=%s %s: %s (listed; not observed in this run)'
                  % (prop_id, f['id'], f['what']))

    total_rej = sum(merged['rejected'].values())
    wall = time.time() - t0
    ev = {
        'property_id': prop_id,
        'tier': tier,
        'seed': seed,
        'level': prop.LEVEL,
        'coverage': {
            'evaluations': merged['evaluations'],
            'distinct_nontrivial': len(merged['nontrivial']),
            'rule': prop.RULE,
            'samples': merged['samples'] or [],
            'labels': dict(sorted(merged['labels'].items())),
            'rejected': dict(merged['rejected']),
            'known_findings_hit': dict(merged['known_hits']),
            'unexplained_buckets': dict(merged['fail_buckets']),
            'counters': dict(merged['extra']),
            'jobs': len(jobs),
            'exhaustive': bool(getattr(prop, 'EXHAUSTIVE', {}).get(tier, False)),
        },
        'assumptions': list(prop.ASSUMPTIONS),
        'wall_s': round(wall, 2),
        'violations': len(merged['fail_buckets']),
    }
    if not args.no_evidence:
        os.makedirs(os.path.join(VERIF, 'evidence'), exist_ok=True)
        with open(os.path.join(VERIF, 'evidence', '%s.json' % prop_id), 'w') as fh:
            json.dump(ev, fh, indent=1, sort_keys=True, default=str)

    print('%s tier=%s seed=%d evaluations=%d distinct_nontrivial=%d rejected=%d '
          'unexplained_buckets=%d wall=%.1fs'
          % (prop_id, tier, seed, merged['evaluations'], len(merged['nontrivial']), total_rej,
             len(merged['fail_buckets']), wall))
    if violations:
        for bucket, path in sorted(violations):
            print('VIOLATION property=%s replay=%s' % (prop_id, path))
            print('  bucket: %s' % bucket[:300])
        return 1
    if merged['fail_buckets']:
        # more buckets than we shrank
        return 1
    # inconclusive runs are harness errors, not passes
    min_eval = getattr(prop, 'MIN_EVALUATIONS', {}).get(tier, 1)
    if merged['evaluations'] < min_eval or len(merged['nontrivial']) < 2:
        print('INCONCLUSIVE property=%s evaluations=%d nontrivial=%d'
              % (prop_id, merged['evaluations'], len(merged['nontrivial'])))
        return 2
    gen = merged['evaluations'] + total_rej
    max_rej = getattr(prop, 'MAX_REJECT_RATE', 0.4)
    if gen and total_rej / float(gen) > max_rej:
        print('INCONCLUSIVE property=%s rejection rate %.2f too high' % (prop_id, total_rej / gen))
        return 2
    return 0


def do_replay(prop, prop_id, path):
    from . import findings as F
    with open(path) as fh:
        doc = json.load(fh)
    case = doc['case'] if 'case' in doc else doc
    if hasattr(prop, 'setup_worker'):
        prop.setup_worker()
    out = prop.check(case)
    atoms = out.get('atoms') or []
    remaining = list(atoms)
    for f in load_findings(prop_id):
        before = len(remaining)
        remaining = F.EXPLAINERS[f['explainer']](case, out, remaining)
        if len(remaining) < before:
            print('KNOWN-FINDING: property=%s %s: %s' % (prop_id, f['id'], f['what']))
    print(json.dumps({'rejected': out.get('rejected'), 'atoms': atoms,
                      'unexplained': remaining, 'labels': out.get('labels')},
                     indent=1, default=str)[:6000])
    if remaining:
        print('VIOLATION property=%s replay=%s' % (prop_id, path))
        return 1
    return 0


if __name__ == '__main__':
    sys.exit(main())
