"""Structural shrinker for JSON cases (DESIGN.md section 6, phase 2).

Cases are plain data, so shrinking is a greedy fix-point over candidate
reductions supplied by the property (`candidates(case)` yields smaller cases);
a candidate is kept when `still_fails(candidate)` is true.  Deterministic, no
RNG, bounded by `max_checks`.
"""
import copy
import json


def size(case):
    return len(json.dumps(case, sort_keys=True, default=str))


def shrink(case, candidates, still_fails, max_checks=400):
    best = case
    checks = 0
    improved = True
    while improved and checks < max_checks:
        improved = False
        for cand in candidates(best):
            if size(cand) >= size(best):
                continue
            checks += 1
            ok = False
            try:
                ok = still_fails(cand)
            except Exception:
                ok = False
            if ok:
                best = cand
                improved = True
                break
            if checks >= max_checks:
                break
    return best, checks


# -- generic candidate helpers for spec/sequence cases ------------------------

def drop_each(lst):
    for i in reversed(range(len(lst))):
        yield lst[:i] + lst[i + 1:]


def spec_seq_candidates(case, seq_key='seq'):
    """Candidates for cases of the form {'spec': ..., seq_key: [...], ...}."""
    from . import specs as S
    seq = case.get(seq_key) or []
    # 1. drop mutations
    for s2 in drop_each(seq):
        c = copy.deepcopy(case)
        c[seq_key] = s2
        yield c
    spec = case['spec']
    # 2. drop models
    for app in list(spec['apps']):
        for name in list(spec['apps'][app]['models']):
            c = copy.deepcopy(case)
            del c['spec']['apps'][app]['models'][name]
            if not c['spec']['apps'][app]['models']:
                del c['spec']['apps'][app]
            c[seq_key] = [m for m in c[seq_key]
                          if not (m['app'] == app and m.get('model', m.get('old')) == name)]
            yield c
    # 3. drop fields / meta entries / simplify attributes
    for app in list(spec['apps']):
        for name, m in spec['apps'][app]['models'].items():
            for i in reversed(range(len(m['fields']))):
                c = copy.deepcopy(case)
                del c['spec']['apps'][app]['models'][name]['fields'][i]
                yield c
            for prop in ('unique_together', 'index_together', 'indexes', 'constraints'):
                for i in reversed(range(len(m[prop]))):
                    c = copy.deepcopy(case)
                    del c['spec']['apps'][app]['models'][name][prop][i]
                    yield c
                for i, entry in enumerate(m[prop]):
                    if isinstance(entry, dict) and entry.get('condition'):
                        c = copy.deepcopy(case)
                        c['spec']['apps'][app]['models'][name][prop][i]['condition'] = None
                        yield c
            if m['db_table']:
                c = copy.deepcopy(case)
                c['spec']['apps'][app]['models'][name]['db_table'] = None
                yield c
            for i, f in enumerate(m['fields']):
                for attr, dflt in (('null', False), ('unique', False), ('db_column', None),
                                   ('db_index', f['kind'] in ('ForeignKey', 'OneToOne')),
                                   ('db_table', None)):
                    if f['kind'] == 'OneToOne' and attr == 'unique':
                        continue
                    if f.get(attr) != dflt:
                        c = copy.deepcopy(case)
                        c['spec']['apps'][app]['models'][name]['fields'][i][attr] = dflt
                        yield c
                if f['kind'] not in ('Integer',) and f['kind'] in S.COLUMN_KINDS:
                    c = copy.deepcopy(case)
                    nf = S.new_field(f['name'], 'Integer', uid=f.get('uid'), null=f['null'],
                                     db_index=f['db_index'], unique=f['unique'],
                                     db_column=f['db_column'])
                    c['spec']['apps'][app]['models'][name]['fields'][i] = nf
                    yield c
    # 4. simplify mutations
    for i, mut in enumerate(seq):
        if mut['kind'] == 'ChangeField' and len(mut['attrs']) > 1 and not mut.get('field_kind'):
            for a in list(mut['attrs']):
                c = copy.deepcopy(case)
                del c[seq_key][i]['attrs'][a]
                if a == 'null':
                    c[seq_key][i]['initial'] = None
                yield c
        if mut['kind'] == 'ChangeMeta':
            for j in reversed(range(len(mut['value']))):
                c = copy.deepcopy(case)
                del c[seq_key][i]['value'][j]
                yield c
        if mut['kind'] == 'AddField':
            f = mut['field']
            for attr, dflt in (('db_index', f['kind'] in ('ForeignKey', 'OneToOne')),
                               ('db_column', None), ('unique', False)):
                if f['kind'] == 'OneToOne' and attr == 'unique':
                    continue
                if f.get(attr) != dflt:
                    c = copy.deepcopy(case)
                    c[seq_key][i]['field'][attr] = dflt
                    yield c
        if mut['kind'] == 'RenameField' and (mut.get('db_column') or mut.get('db_table')):
            c = copy.deepcopy(case)
            c[seq_key][i]['db_column'] = None
            c[seq_key][i]['db_table'] = None
            yield c
    # 5. rows
    rows = case.get('rows')
    if rows:
        for t in list(rows):
            for i in reversed(range(len(rows[t]))):
                c = copy.deepcopy(case)
                del c['rows'][t][i]
                yield c
