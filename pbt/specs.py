"""Plain-data specs of projects/models/fields and Hypothesis strategies for them.

Everything here is JSON-serialisable (lists/dicts/str/int/bool/None): a spec is
the replay format.  See DESIGN.md section 3.
"""
import copy

from hypothesis import strategies as st

APP_LABELS = ['pa', 'pb', 'pc', 'pd', 'pe']
MODEL_NAMES = ['Book', 'BookStore', 'Author', 'Tag', 'Item']
FIELD_NAMES = ['a', 'b', 'c', 'd', 'name', 'ref']
COLUMN_KINDS = ['Char', 'Text', 'Integer', 'BigInteger', 'PositiveInteger',
                'Boolean', 'Decimal', 'DateTime']
REL_KINDS = ['ForeignKey', 'OneToOne', 'ManyToMany']
ALL_KINDS = COLUMN_KINDS + REL_KINDS
INT_KINDS = ('Integer', 'BigInteger', 'PositiveInteger')
TABLE_POOL = ['shop', 'shop_item', 'shop_item_x', 'tbl']


def new_field(name, kind, **kw):
    f = {'name': name, 'kind': kind, 'null': False, 'db_index': False,
         'unique': False, 'db_column': None, 'max_length': None,
         'max_digits': None, 'decimal_places': None, 'target': None,
         'db_table': None}
    if kind == 'Char':
        f['max_length'] = 20
    if kind == 'Decimal':
        f['max_digits'] = 8
        f['decimal_places'] = 2
    if kind in ('ForeignKey', 'OneToOne'):
        f['db_index'] = True
    if kind == 'OneToOne':
        f['unique'] = True
    f.update(kw)
    return f


def new_model(name, fields=(), **kw):
    m = {'name': name, 'db_table': None, 'fields': [copy.deepcopy(f) for f in fields],
         'unique_together': [], 'index_together': [], 'indexes': [],
         'constraints': [], 'pk': 'id'}
    m.update(kw)
    return m


def new_project():
    return {'apps': {}}


def add_model(spec, app, model):
    spec['apps'].setdefault(app, {'models': {}})['models'][model['name']] = model
    return model


def iter_models(spec):
    for app in sorted(spec['apps']):
        for name, m in spec['apps'][app]['models'].items():
            yield app, name, m


def get_model(spec, app, name):
    a = spec['apps'].get(app)
    if not a:
        return None
    return a['models'].get(name)


def get_field(model, name):
    for f in model['fields']:
        if f['name'] == name:
            return f
    return None


def pk_of(model):
    return model.get('pk') or 'id'


def default_table(app, name):
    return '%s_%s' % (app, name.lower())


def table_of(app, model):
    return model['db_table'] or default_table(app, model['name'])


def column_of(f):
    if f['kind'] == 'ManyToMany':
        return None
    if f['db_column']:
        return f['db_column']
    if f['kind'] in ('ForeignKey', 'OneToOne'):
        return f['name'] + '_id'
    return f['name']


def m2m_table_of(app, model, f):
    if f['db_table']:
        return f['db_table']
    return '%s_%s' % (table_of(app, model), f['name'])


def meta_field_refs(model):
    """Names of fields referenced from any Meta option, by option."""
    refs = {'unique_together': set(), 'index_together': set(),
            'indexes': set(), 'constraints': set()}
    for t in model['unique_together']:
        refs['unique_together'].update(t)
    for t in model['index_together']:
        refs['index_together'].update(t)
    for ix in model['indexes']:
        refs['indexes'].update(n.lstrip('-') for n in ix['fields'])
        if ix.get('condition'):
            refs['indexes'].update(q_fields(ix['condition']))
    for c in model['constraints']:
        if c['type'] == 'unique':
            refs['constraints'].update(c['fields'])
            if c.get('condition'):
                refs['constraints'].update(q_fields(c['condition']))
        else:
            refs['constraints'].update(q_fields(c['check']))
    return refs


def all_meta_refs(model):
    out = set()
    for s in meta_field_refs(model).values():
        out |= s
    return out


def q_fields(q):
    if q is None:
        return set()
    if q['op'] == 'leaf':
        return {q['field']}
    if q['op'] == 'not':
        return q_fields(q['child'])
    out = set()
    for c in q['children']:
        out |= q_fields(c)
    return out


def relations_to(spec, app, name):
    """(app, model, field) triples of relation fields pointing at app.name."""
    out = []
    for a, n, m in iter_models(spec):
        for f in m['fields']:
            if f['target'] and tuple(f['target']) == (app, name):
                out.append((a, n, f['name']))
    return out


def used_names(spec):
    """All index/constraint names used in a project."""
    names = set()
    for _a, _n, m in iter_models(spec):
        for ix in m['indexes']:
            if ix.get('name'):
                names.add(ix['name'])
        for c in m['constraints']:
            names.add(c['name'])
    return names


def all_tables(spec):
    out = {}
    for a, n, m in iter_models(spec):
        out[table_of(a, m)] = (a, n, None)
        for f in m['fields']:
            if f['kind'] == 'ManyToMany':
                out[m2m_table_of(a, m, f)] = (a, n, f['name'])
    return out


# ---------------------------------------------------------------------------
# Strategies
# ---------------------------------------------------------------------------

class Features(object):
    """What the spec generator may produce (used to exclude known triggers)."""

    def __init__(self, **kw):
        self.meta = True            # unique_together/index_together/indexes/constraints
        self.conditions = True      # partial indexes / conditional unique
        self.checks = True          # CheckConstraint
        self.relations = True
        self.m2m = True
        self.db_column = True
        self.db_table = True
        self.two_apps = True
        self.positive = True        # PositiveIntegerField (inline CHECK)
        self.max_models = 3
        self.max_fields = 4
        self.unnamed_indexes = True
        for k, v in kw.items():
            assert hasattr(self, k), k
            setattr(self, k, v)


@st.composite
def q_specs(draw, fields, depth=2):
    """A Q tree over column fields (list of field dicts)."""
    leafable = [f for f in fields
                if f['kind'] in INT_KINDS + ('Char', 'Boolean')]
    assert leafable
    if depth > 0 and draw(st.integers(0, 3)) == 0:
        op = draw(st.sampled_from(['and', 'or', 'not']))
        if op == 'not':
            return {'op': 'not', 'child': draw(q_specs(fields, depth - 1))}
        n = draw(st.integers(1, 3))
        return {'op': op,
                'children': [draw(q_specs(fields, depth - 1)) for _ in range(n)]}
    f = draw(st.sampled_from(leafable))
    if f['kind'] in INT_KINDS:
        lookup = draw(st.sampled_from(['exact', 'gt', 'gte', 'lt', 'lte', 'in'] +
                                      (['isnull'] if f['null'] else [])))
        if lookup == 'in':
            value = draw(st.lists(st.integers(0, 9), min_size=1, max_size=3, unique=True))
        elif lookup == 'isnull':
            value = draw(st.booleans())
        elif lookup in ('gt', 'gte'):
            value = draw(st.integers(-1000, 0))
        elif lookup in ('lt', 'lte'):
            value = draw(st.integers(100000, 200000))
        else:
            value = draw(st.integers(0, 9))
    elif f['kind'] == 'Boolean':
        lookup = 'exact'
        value = draw(st.booleans())
    else:
        lookup = draw(st.sampled_from(['exact', 'in'] + (['isnull'] if f['null'] else [])))
        if lookup == 'in':
            value = draw(st.lists(st.sampled_from(['x', 'y', "it's", '50%']),
                                  min_size=1, max_size=2, unique=True))
        elif lookup == 'isnull':
            value = draw(st.booleans())
        else:
            value = draw(st.sampled_from(['', 'x', "it's", '50%', 'a"b']))
    return {'op': 'leaf', 'field': f['name'], 'lookup': lookup, 'value': value}


def permissive_check(draw, fields):
    """A check the row generator always satisfies: integer >= very negative,
    or a tautology-like OR; drawn from q_specs but restricted."""
    ints = [f for f in fields if f['kind'] in INT_KINDS]
    if ints:
        f = draw(st.sampled_from(ints))
        lookup = draw(st.sampled_from(['gte', 'lte']))
        if lookup == 'gte':
            value = -9223372036854775808
        else:
            value = 9223372036854775807
        leaf = {'op': 'leaf', 'field': f['name'], 'lookup': lookup, 'value': value}
        if f['null']:
            leaf = {'op': 'or', 'children': [
                leaf, {'op': 'leaf', 'field': f['name'], 'lookup': 'isnull', 'value': True}]}
        shape = draw(st.integers(0, 3))
        if shape == 0:
            return {'op': 'not', 'child': {'op': 'not', 'child': leaf}}
        if shape == 1:
            return {'op': 'and', 'children': [leaf]}
        return leaf
    return None


@st.composite
def field_specs(draw, name, feats, targets, kinds=None, allow_unique=True):
    """One field.  `targets` = list of (app, Model) that relations may use."""
    kinds = list(kinds or ALL_KINDS)
    if not feats.positive and 'PositiveInteger' in kinds:
        kinds.remove('PositiveInteger')
    if not (feats.relations and targets):
        kinds = [k for k in kinds if k not in REL_KINDS]
    if not feats.m2m and 'ManyToMany' in kinds:
        kinds.remove('ManyToMany')
    kind = draw(st.sampled_from(kinds))
    f = new_field(name, kind)
    if kind == 'ManyToMany':
        f['target'] = list(draw(st.sampled_from(targets)))
        if feats.db_table and draw(st.integers(0, 4)) == 0:
            f['db_table'] = 'm2m_' + name
        return f
    if kind in ('ForeignKey', 'OneToOne'):
        f['target'] = list(draw(st.sampled_from(targets)))
    if kind == 'Char':
        f['max_length'] = draw(st.sampled_from([1, 10, 20, 50]))
    if kind == 'Decimal':
        f['max_digits'] = draw(st.sampled_from([4, 8, 10]))
        f['decimal_places'] = draw(st.sampled_from([0, 2, 4]))
    f['null'] = draw(st.booleans())
    if kind == 'ForeignKey':
        f['db_index'] = draw(st.integers(0, 3)) != 0
    elif kind != 'OneToOne':
        f['db_index'] = draw(st.integers(0, 3)) == 0
    if allow_unique and kind in ('Char', 'Integer', 'BigInteger', 'ForeignKey'):
        f['unique'] = draw(st.integers(0, 4)) == 0
    if feats.db_column and draw(st.integers(0, 4)) == 0:
        f['db_column'] = draw(st.sampled_from(['col_' + name, 'x' + name]))
    return f


@st.composite
def meta_for_model(draw, model, feats, used, prefix):
    """Draw Meta options for `model` (mutates and returns it)."""
    cols = [f for f in model['fields'] if f['kind'] != 'ManyToMany']
    names = [f['name'] for f in cols]
    # Boolean columns cannot hold distinct values: keep them out of uniqueness groups
    unames = [f['name'] for f in cols if f['kind'] != 'Boolean']
    if not feats.meta or not names:
        return model

    def subset(minsize=1, maxsize=3, pool=None):
        pool = names if pool is None else pool
        return draw(st.lists(st.sampled_from(pool), min_size=min(minsize, len(pool)),
                             max_size=min(maxsize, len(pool)), unique=True))

    def fresh(base):
        i = 0
        while True:
            n = '%s_%s%s' % (prefix, base, i or '')
            if n not in used:
                used.add(n)
                return n
            i += 1

    if len(unames) >= 2 and draw(st.integers(0, 2)) == 0:
        k = draw(st.integers(1, 2))
        seen = []
        for _ in range(k):
            t = subset(2, 3, unames)
            if sorted(t) not in [sorted(x) for x in seen]:
                seen.append(t)
        model['unique_together'] = seen
    if len(names) >= 2 and draw(st.integers(0, 3)) == 0:
        k = draw(st.integers(1, 2))
        seen = []
        for _ in range(k):
            t = subset(2, 3)
            if t not in seen:
                seen.append(t)
        model['index_together'] = seen
    if draw(st.integers(0, 2)) == 0:
        k = draw(st.integers(1, 2))
        for _ in range(k):
            flds = subset(1, 2)
            flds = [('-' + n if draw(st.integers(0, 3)) == 0 else n) for n in flds]
            named = (not feats.unnamed_indexes) or draw(st.integers(0, 3)) != 0
            ix = {'name': fresh('ix') if named else None, 'fields': flds, 'condition': None}
            if named and feats.conditions and draw(st.integers(0, 2)) == 0:
                leafable = [f for f in cols if f['kind'] in INT_KINDS + ('Char', 'Boolean')]
                if leafable:
                    ix['condition'] = draw(q_specs(cols))
            if not named and any(o['name'] is None and o['fields'] == flds
                                 for o in model['indexes']):
                continue
            model['indexes'].append(ix)
    if draw(st.integers(0, 2)) == 0:
        k = draw(st.integers(1, 2))
        for _ in range(k):
            which = draw(st.sampled_from(['unique', 'check'] if feats.checks else ['unique']))
            if which == 'check':
                chk = permissive_check(draw, cols)
                if chk is not None:
                    model['constraints'].append({'type': 'check', 'name': fresh('ck'),
                                                 'check': chk})
                    continue
            if not unames:
                continue
            c = {'type': 'unique', 'name': fresh('uq'), 'fields': subset(1, 2, unames),
                 'condition': None}
            leafable = [f for f in cols if f['kind'] in INT_KINDS + ('Char', 'Boolean')]
            if feats.conditions and leafable and draw(st.integers(0, 2)) == 0:
                c['condition'] = draw(q_specs(cols))
            model['constraints'].append(c)
    return model


@st.composite
def project_specs(draw, feats=None, apps=('pa', 'pb'), min_models=1):
    feats = feats or Features()
    n = draw(st.integers(min_models, feats.max_models))
    names = draw(st.permutations(MODEL_NAMES))[:n]
    spec = new_project()
    placed = []
    for i, name in enumerate(names):
        if feats.two_apps and len(apps) > 1 and i > 0 and draw(st.integers(0, 2)) == 0:
            app = apps[1]
        else:
            app = apps[0]
        placed.append((app, name))
    used_tables = set()
    used = set()
    for app, name in placed:
        m = new_model(name)
        if feats.db_table and draw(st.integers(0, 3)) == 0:
            cands = [t for t in TABLE_POOL if t not in used_tables]
            if cands:
                m['db_table'] = draw(st.sampled_from(cands))
                used_tables.add(m['db_table'])
        nf = draw(st.integers(1, feats.max_fields))
        fnames = draw(st.permutations(FIELD_NAMES))[:nf]
        for fn in fnames:
            m['fields'].append(draw(field_specs(fn, feats, placed)))
        add_model(spec, app, m)
    # make M2M/explicit tables collision-free
    for app, name in placed:
        m = get_model(spec, app, name)
        draw(meta_for_model(m, feats, used, name.lower()))
    _fix_collisions(spec)
    return spec


def _fix_collisions(spec):
    """Give colliding M2M db_table / column names unique ones (construction
    over rejection)."""
    seen = set()
    for a, n, m in iter_models(spec):
        t = table_of(a, m)
        assert t not in seen, t
        seen.add(t)
    for a, n, m in iter_models(spec):
        cols = {pk_of(m)}
        for f in m['fields']:
            if f['kind'] == 'ManyToMany':
                t = m2m_table_of(a, m, f)
                if t in seen:
                    f['db_table'] = 'm2m_%s_%s' % (n.lower(), f['name'])
                    t = f['db_table']
                    assert t not in seen
                seen.add(t)
            else:
                c = column_of(f)
                if c in cols:
                    f['db_column'] = 'k_' + f['name']
                    c = f['db_column']
                cols.add(c)


def index_objects(m):
    """Column-name sets of every index-like object of a model (field db_index /
    unique, *_together groups, Meta indexes, unique constraints)."""
    out = []
    for f in m['fields']:
        if f['kind'] == 'ManyToMany':
            continue
        if f['unique'] or f['kind'] == 'OneToOne':
            out.append(frozenset([f['name']]))
        elif f['db_index']:
            out.append(frozenset([f['name']]))
    for t in m['unique_together'] + m['index_together']:
        out.append(frozenset(t))
    for ix in m['indexes']:
        out.append(frozenset(n.lstrip('-') for n in ix['fields']))
    for c in m['constraints']:
        if c['type'] == 'unique':
            out.append(frozenset(c['fields']))
    return out


def has_index_overlap(m):
    objs = index_objects(m)
    return len(objs) != len(set(objs))


def strip_index_overlap(m):
    """Remove Meta entries until no two index-like objects share a column set
    (construction helper for the avoid-by-construction strata)."""
    for prop in ('constraints', 'indexes', 'index_together', 'unique_together'):
        while has_index_overlap(m) and m[prop]:
            # drop entries of this prop that collide
            objs = index_objects(m)
            dropped = False
            for i in reversed(range(len(m[prop]))):
                e = m[prop][i]
                if prop in ('unique_together', 'index_together'):
                    key = frozenset(e)
                elif prop == 'indexes':
                    key = frozenset(n.lstrip('-') for n in e['fields'])
                elif e['type'] == 'unique':
                    key = frozenset(e['fields'])
                else:
                    continue
                if objs.count(key) > 1:
                    del m[prop][i]
                    dropped = True
                    break
            if not dropped:
                break
    return m
