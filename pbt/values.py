"""Value grammar for the serialisation properties (C06, C13): JSON data forms,
Hypothesis strategies for them, and construction of the real Python/Django
objects (DESIGN.md 3.4)."""
from hypothesis import strategies as st

STRINGS = ['', 'x', "it's", 'a"b', 'back\\slash', 'é', '50%', '%s', 'line\nbreak', 'tab\t', '日本',
           "'", '\\', '"""', 'None', '{}']
FIELD_NAMES = ['a', 'b', 'c', 'name']


def prims():
    return st.one_of(
        st.builds(lambda v: {'t': 'str', 'v': v}, st.sampled_from(STRINGS)),
        st.builds(lambda v: {'t': 'int', 'v': v}, st.sampled_from([0, 1, -1, 42, 2 ** 31, -2 ** 63])),
        st.builds(lambda v: {'t': 'bool', 'v': v}, st.booleans()),
        st.just({'t': 'none'}),
        st.builds(lambda v: {'t': 'float', 'v': v}, st.sampled_from([0.0, 1.5, -2.25])),
    )


def containers(inner, max_size=3):
    return st.one_of(
        st.builds(lambda v: {'t': 'list', 'v': v}, st.lists(inner, max_size=max_size)),
        st.builds(lambda v: {'t': 'tuple', 'v': v}, st.lists(inner, max_size=max_size)),
        st.builds(lambda k, v: {'t': 'dict', 'v': [[kk, vv] for kk, vv in zip(k, v)]},
                  st.lists(st.sampled_from(['k', 'key2', 'é', 'a b']), unique=True, max_size=max_size),
                  st.lists(inner, min_size=max_size, max_size=max_size)),
    )


def plain_values(depth=2):
    if depth <= 0:
        return prims()
    return st.one_of(prims(), containers(plain_values(depth - 1)))


def leaf_values():
    """Right-hand sides of Q leaves."""
    return st.one_of(
        prims(),
        st.builds(lambda v: {'t': 'list', 'v': v}, st.lists(prims(), max_size=3)),
        st.builds(lambda v: {'t': 'tuple', 'v': v}, st.lists(prims(), max_size=3)),
        st.builds(lambda n: {'t': 'f', 'v': n}, st.sampled_from(FIELD_NAMES)),
    )


LOOKUPS = ['', '__exact', '__gt', '__gte', '__lt', '__isnull', '__in', '__startswith']


def q_values(depth=3, connectors=('AND', 'OR', 'XOR')):
    leaf = st.builds(lambda f, l, v: {'t': 'q', 'kind': 'leaf', 'key': f + l, 'value': v},
                     st.sampled_from(FIELD_NAMES), st.sampled_from(LOOKUPS), leaf_values())
    if depth <= 0:
        return leaf
    sub = q_values(depth - 1, connectors)
    return st.one_of(
        leaf,
        st.just({'t': 'q', 'kind': 'empty'}),
        st.builds(lambda c: {'t': 'q', 'kind': 'not', 'child': c}, sub),
        st.builds(lambda c: {'t': 'q', 'kind': 'wrap', 'child': c}, sub),     # Q(Q(...))
        st.builds(lambda op, cs: {'t': 'q', 'kind': 'conn', 'op': op, 'children': cs},
                  st.sampled_from(list(connectors)), st.lists(sub, min_size=2, max_size=3)),
        st.builds(lambda kv: {'t': 'q', 'kind': 'multi', 'items': kv},
                  st.lists(st.tuples(st.sampled_from(FIELD_NAMES), leaf_values()),
                           min_size=2, max_size=3, unique_by=lambda t: t[0])),
    )


def expr_values(depth=2):
    base = st.one_of(
        st.builds(lambda n: {'t': 'f', 'v': n}, st.sampled_from(FIELD_NAMES)),
        st.builds(lambda v: {'t': 'value', 'v': v}, prims()),
    )
    if depth <= 0:
        return base
    sub = expr_values(depth - 1)
    return st.one_of(
        base,
        st.builds(lambda op, l, r: {'t': 'combined', 'op': op, 'l': l, 'r': r},
                  st.sampled_from(['+', '-', '*', '/', '%']), sub, sub),
        st.builds(lambda e, d: {'t': 'orderby', 'e': e, 'desc': d}, sub, st.booleans()),
        st.builds(lambda e: {'t': 'lower', 'e': e},
                  st.builds(lambda n: {'t': 'f', 'v': n}, st.sampled_from(FIELD_NAMES))),
    )


def any_values():
    return st.one_of(plain_values(2), q_values(2), expr_values(2),
                     st.builds(lambda v: {'t': 'deferrable', 'v': v},
                               st.sampled_from(['DEFERRED', 'IMMEDIATE'])),
                     st.builds(lambda v: {'t': 'cls', 'v': v},
                               st.sampled_from(['CharField', 'IntegerField', 'ForeignKey'])),
                     st.builds(lambda v: {'t': 'set', 'v': v},
                               st.lists(st.sampled_from([{'t': 'int', 'v': 1}, {'t': 'int', 'v': 2},
                                                         {'t': 'str', 'v': 'x'}]),
                                        max_size=2, unique_by=repr)))


# ---------------------------------------------------------------------------

def build(v):
    from django.db import models
    from django.db.models import F, Q, Value
    from django.db.models.expressions import CombinedExpression, OrderBy
    from django.db.models.functions import Lower
    t = v['t']
    if t in ('str', 'int', 'bool', 'float'):
        return v['v']
    if t == 'none':
        return None
    if t == 'list':
        return [build(x) for x in v['v']]
    if t == 'tuple':
        return tuple(build(x) for x in v['v'])
    if t == 'set':
        return set(build(x) for x in v['v'])
    if t == 'dict':
        return dict((k, build(x)) for k, x in v['v'])
    if t == 'f':
        return F(v['v'])
    if t == 'value':
        return Value(build(v['v']))
    if t == 'combined':
        # Django's own connector for modulo is '%%' (Combinable.MOD)
        op = '%%' if v['op'] == '%' else v['op']
        return CombinedExpression(build(v['l']), op, build(v['r']))
    if t == 'orderby':
        return OrderBy(build(v['e']), descending=v['desc'])
    if t == 'lower':
        return Lower(build(v['e']))
    if t == 'deferrable':
        return getattr(models.Deferrable, v['v'])
    if t == 'cls':
        return getattr(models, v['v'])
    if t == 'q':
        k = v['kind']
        if k == 'leaf':
            return Q(**{v['key']: build(v['value'])})
        if k == 'empty':
            return Q()
        if k == 'not':
            return ~build(v['child'])
        if k == 'wrap':
            return Q(build(v['child']))
        if k == 'multi':
            return Q(**dict((kk, build(vv)) for kk, vv in v['items']))
        if k == 'conn':
            kids = [build(c) for c in v['children']]
            out = kids[0]
            for kid in kids[1:]:
                if v['op'] == 'AND':
                    out = out & kid
                elif v['op'] == 'OR':
                    out = out | kid
                else:
                    out = out ^ kid
            return out
    raise ValueError(v)


def contains(v, kinds):
    """Does a data-form value contain any node of the given types?"""
    if isinstance(v, dict):
        if v.get('t') in kinds:
            return True
        return any(contains(x, kinds) for x in v.values())
    if isinstance(v, (list, tuple)):
        return any(contains(x, kinds) for x in v)
    return False


def deep_equal(a, b):
    """Structural equality of built values that also compares container types
    (tuple vs list) and uses deconstruct()/identity where needed."""
    if type(a) is not type(b):
        return False
    if isinstance(a, (list, tuple)):
        return len(a) == len(b) and all(deep_equal(x, y) for x, y in zip(a, b))
    if isinstance(a, dict):
        return sorted(a, key=repr) == sorted(b, key=repr) and all(deep_equal(a[k], b[k]) for k in a)
    if isinstance(a, set):
        return a == b
    if hasattr(a, 'deconstruct') and not isinstance(a, type):
        try:
            pa, aa, ka = a.deconstruct()
            pb, ab, kb = b.deconstruct()
            return pa == pb and deep_equal(list(aa), list(ab)) and deep_equal(ka, kb)
        except Exception:
            return a == b
    return a == b
