#!/bin/sh
# Offline setup: make sure hypothesis is importable from /venv (it is pre-installed there;
# the wheelhouse copy is used if a fresh restore lacks it).
set -e
if ! /venv/bin/python -c "import hypothesis" 2>/dev/null; then
  /venv/bin/pip install --no-index --find-links /opt/veriftools/wheels hypothesis
fi
/venv/bin/python -c "import hypothesis, django; print('hypothesis', hypothesis.__version__, 'django', django.__version__)"
mkdir -p /verif/evidence /verif/replays
