"""For every open finding in known_findings.json: replay its minimal replay(s) on the current
/repo and report whether the finding is still observed there (the replay prints a KNOWN-FINDING
line naming it).  usage: /venv/bin/python tools/findings_live.py [<property id>...]
A finding that is no longer observed by its own replay is either cured by a repair (move it to
'fixed', delete its explainer) or its replay is out of date (renew it)."""
import json, os, subprocess, sys
from concurrent.futures import ThreadPoolExecutor
VERIF = os.path.dirname(os.path.dirname(os.path.abspath(__file__)))
d = json.load(open(os.path.join(VERIF, 'known_findings.json')))
want = set(sys.argv[1:])
jobs = []
for f in d['findings']:
    if want and f['property'] not in want:
        continue
    for r in f.get('minimal_replays') or [f.get('minimal_replay')]:
        jobs.append((f['id'], f['property'], r))


def run(job):
    fid, prop, rel = job
    if not rel or not os.path.exists(os.path.join(VERIF, rel)):
        return fid, rel, 'NO-REPLAY-FILE'
    p = subprocess.run(['/venv/bin/python', '-m', 'pbt.run', prop, '--replay', rel], cwd=VERIF,
                       env=dict(os.environ, PYTHONHASHSEED='0'), capture_output=True, text=True)
    seen = ('KNOWN-FINDING: property=%s %s:' % (prop, fid)) in p.stdout
    return fid, rel, ('observed' if seen else 'NOT-OBSERVED') + ' rc=%d' % p.returncode


with ThreadPoolExecutor(8) as ex:
    res = list(ex.map(run, jobs))
bad = 0
for fid, rel, st in res:
    print('%-10s %-22s %s' % (fid, st, rel))
    bad += not st.startswith('observed rc=0')
print('%d replays, %d not (cleanly) observed' % (len(res), bad))
