"""Regenerates /verif/MANIFEST.json from tools/manifest_entries.json."""
import json, os
HERE = os.path.dirname(os.path.abspath(__file__))
VERIF = os.path.dirname(HERE)
props = [json.loads(l) for l in open(os.path.join(VERIF, 'properties.jsonl'))]
entries = json.load(open(os.path.join(HERE, 'manifest_entries.json')))
checks = []
claimed = []
for p in props:
    e = entries.get(p['id'])
    if not e or not e.get('claimed', True):
        continue
    claimed.append(p['id'])
    checks.append({
        'property_id': p['id'],
        'quick_cmd': './check.sh %s quick' % p['id'],
        'thorough_cmd': './check.sh %s thorough' % p['id'],
        'evidence_file': 'evidence/%s.json' % p['id'],
        'replay_cmd_template': 'PYTHONHASHSEED=0 /venv/bin/python -m pbt.run %s --replay {path}' % p['id'],
        'engine': 'pbt',
        'level_claimed': {'category': e['level'], 'text': e['text'], 'design_ref': e['design_ref']},
        'level_note': e['note'],
        'technique': e['technique'],
    })
na = []
for p in props:
    if p['id'] not in claimed:
        reason = (entries.get(p['id']) or {}).get('na_reason') or \
            'check not built yet (planned: DESIGN.md section 5); not claimed until it exists and is quiet on the unchanged tree'
        na.append({'property_id': p['id'], 'reason': reason})
man = {
    'version': 1,
    'setup_cmd': './setup.sh',
    'hooks': {
        'guard': 'DJANGO_EVOLUTION_VERIF',
        'enable': 'not used: no instrumentation of the repository is needed (connection.execute_wrapper, Django signals and SQLite introspection observe everything the properties mention)',
        'baseline_off_cmd': 'cd /repo && /venv/bin/python -m pytest -ra -q -p no:cacheprovider --timeout=900 --continue-on-collection-errors',
        'source_commits': [],
        'add_only': True,
    },
    'engines': [{
        'name': 'pbt', 'path': 'pbt/run.py', 'serves_properties': claimed,
        'kind_free_text': 'Hypothesis-driven generated-input search (collect -> bucket -> structural shrink -> replay file) against reference-model / differential / metamorphic oracles, 16 sharded worker processes; exhaustive enumeration for small finite scopes',
    }],
    'checks': checks,
    'not_applicable': na,
    'notes': 'See DESIGN.md. Known findings and fixes: known_findings.json. regress/<ID>/*.json are replayed first by every check. Exit 2 = harness error/inconclusive, never a violation.',
}
json.dump(man, open(os.path.join(VERIF, 'MANIFEST.json'), 'w'), indent=1)
print('claimed', claimed, 'not_applicable', len(na))
