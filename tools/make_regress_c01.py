"""Writes the hand-minimised replay files for the C01 known findings."""
import json, os, sys
sys.path.insert(0, os.path.dirname(os.path.dirname(os.path.abspath(__file__))))
from pbt import specs as S

OUT = os.path.join(os.path.dirname(os.path.dirname(os.path.abspath(__file__))), 'regress', 'C01')


def proj(*models):
    spec = S.new_project()
    for app, m in models:
        S.add_model(spec, app, m)
    return spec


def save(name, finding, mode, spec, seq):
    doc = {'property': 'C01', 'finding': finding,
           'case': {'mode': mode, 'spec': spec, 'seq': seq, 'rows': {}, 'links': {}}}
    with open(os.path.join(OUT, name + '.json'), 'w') as fh:
        json.dump(doc, fh, indent=1, sort_keys=True)


F = S.new_field
M = S.new_model
cf = lambda model, name, **kw: {'kind': 'ChangeField', 'app': 'pa', 'model': model, 'name': name,
                                'attrs': kw.pop('attrs'), 'field_kind': kw.pop('field_kind', None),
                                'initial': kw.pop('initial', None)}

save('F-C01-1_rebuild_drops_unique_together', 'F-C01-1', 'walk',
     proj(('pa', M('Item', [F('a', 'Integer'), F('b', 'Integer')],
                   unique_together=[['a', 'b']], index_together=[['b', 'a']]))),
     [{'kind': 'AddField', 'app': 'pa', 'model': 'Item', 'field': F('c', 'Integer', null=True),
       'initial': None}])
save('F-C01-2_rename_model_with_m2m', 'F-C01-2', 'walk',
     proj(('pa', M('Tag', [F('a', 'Integer')])),
          ('pa', M('Item', [F('d', 'ManyToMany', target=['pa', 'Tag'])]))),
     [{'kind': 'RenameModel', 'app': 'pa', 'old': 'Item', 'new': 'Zed', 'db_table': 'pa_item'}])
save('F-C01-3_hint_delete_order', 'F-C01-3', 'hinted',
     proj(('pa', M('Book', [])), ('pa', M('Tag', [F('ref', 'ForeignKey', target=['pa', 'Book'])]))),
     [{'kind': 'DeleteModel', 'app': 'pa', 'model': 'Tag'},
      {'kind': 'DeleteModel', 'app': 'pa', 'model': 'Book'}])
save('F-C01-3_delete_application_order', 'F-C01-3', 'walk',
     proj(('pa', M('BookStore', [])),
          ('pa', M('Item', [F('ref', 'ForeignKey', target=['pa', 'BookStore'])]))),
     [{'kind': 'DeleteApplication', 'app': 'pa'}])
save('F-C01-4_rename_model_m2m_columns', 'F-C01-4', 'walk',
     proj(('pa', M('Book', [])), ('pb', M('Tag', [F('c', 'ManyToMany', target=['pa', 'Book'])]))),
     [{'kind': 'RenameModel', 'app': 'pa', 'old': 'Book', 'new': 'BookStore',
       'db_table': 'rt0_bookstore'}])
save('F-C01-5_index_identity_by_columns', 'F-C01-5', 'walk',
     proj(('pa', M('Author', [F('ref', 'Integer')],
                   indexes=[{'name': 'author_ix', 'fields': ['ref'], 'condition': None}]))),
     [cf('Author', 'ref', attrs={'db_index': True})])
save('F-C01-5_drop_wrong_index', 'F-C01-5', 'walk',
     proj(('pa', M('Item', [F('c', 'Integer', db_index=True), F('d', 'Integer')],
                   unique_together=[['d', 'c']],
                   constraints=[{'type': 'unique', 'name': 'item_uq', 'fields': ['d', 'c'],
                                 'condition': None}]))),
     [{'kind': 'ChangeMeta', 'app': 'pa', 'model': 'Item', 'prop': 'unique_together', 'value': []}])
save('F-C01-6_db_column_and_db_index', 'F-C01-6', 'walk',
     proj(('pa', M('Tag', [F('d', 'Boolean', null=True)]))),
     [cf('Tag', 'd', attrs={'db_column': 'cc0_d', 'db_index': True})])
save('F-C01-7_type_change_column_rename', 'F-C01-7', 'hinted',
     proj(('pa', M('Tag', [F('d', 'Integer', null=True, db_column='xd')]))),
     [{'kind': 'DeleteField', 'app': 'pa', 'model': 'Tag', 'name': 'd'},
      {'kind': 'AddField', 'app': 'pa', 'model': 'Tag',
       'field': F('d', 'Char', max_length=10), 'initial': ''}])
save('F-C01-8_m2m_rename_readd', 'F-C01-8', 'walk',
     proj(('pa', M('Book', [F('name', 'ManyToMany', target=['pa', 'Book'])]))),
     [{'kind': 'RenameField', 'app': 'pa', 'model': 'Book', 'old': 'name', 'new': 'a',
       'db_column': None, 'db_table': None},
      {'kind': 'AddField', 'app': 'pa', 'model': 'Book',
       'field': F('name', 'ManyToMany', target=['pa', 'Book']), 'initial': None}])
save('F-C01-9_db_index_false_with_rebuild', 'F-C01-9', 'walk',
     proj(('pa', M('BookStore', [F('b', 'Integer', null=True, db_index=True, unique=True)]))),
     [cf('BookStore', 'b', attrs={'db_index': False, 'unique': False})])
save('F-C01-10_hint_m2m_to_column', 'F-C01-10', 'hinted',
     proj(('pa', M('Author', [F('a', 'ManyToMany', target=['pa', 'Author'])]))),
     [{'kind': 'DeleteField', 'app': 'pa', 'model': 'Author', 'name': 'a'},
      {'kind': 'AddField', 'app': 'pa', 'model': 'Author',
       'field': F('a', 'Text', db_index=True), 'initial': 'text'}])
save('F-C01-11_hint_delete_field_meta_order', 'F-C01-11', 'hinted',
     proj(('pa', M('Book', [F('d', 'Char', max_length=1), F('ref', 'Char', max_length=10, null=True)],
                   index_together=[['ref', 'd']]))),
     [{'kind': 'ChangeMeta', 'app': 'pa', 'model': 'Book', 'prop': 'index_together', 'value': []},
      {'kind': 'DeleteField', 'app': 'pa', 'model': 'Book', 'name': 'ref'}])
print('written', len(os.listdir(OUT)))
