"""Hand-minimised replay files for the C03 known findings."""
import json, os, sys
sys.path.insert(0, os.path.dirname(os.path.dirname(os.path.abspath(__file__))))
from pbt import specs as S
OUT = os.path.join(os.path.dirname(os.path.dirname(os.path.abspath(__file__))), 'regress', 'C03')
F, M = S.new_field, S.new_model


def proj(*models):
    spec = S.new_project()
    for app, m in models:
        S.add_model(spec, app, m)
    return spec


def save(name, finding, spec, seq, rows=None, cuts=()):
    doc = {'property': 'C03', 'finding': finding,
           'case': {'mode': 'walk', 'spec': spec, 'seq': seq, 'rows': rows or {}, 'links': {},
                    'cuts': list(cuts)}}
    json.dump(doc, open(os.path.join(OUT, name + '.json'), 'w'), indent=1, sort_keys=True)


def add(model, f, initial=None):
    return {'kind': 'AddField', 'app': 'pa', 'model': model, 'field': f, 'initial': initial}


def chg(model, name, initial=None, field_kind=None, **attrs):
    return {'kind': 'ChangeField', 'app': 'pa', 'model': model, 'name': name, 'attrs': attrs,
            'field_kind': field_kind, 'initial': initial}


def ren(model, old, new, db_column=None):
    return {'kind': 'RenameField', 'app': 'pa', 'model': model, 'old': old, 'new': new,
            'db_column': db_column, 'db_table': None}


def meta(model, prop, value):
    return {'kind': 'ChangeMeta', 'app': 'pa', 'model': model, 'prop': prop, 'value': value}


alpha = lambda **kw: M('Alpha', [F('a', 'Char', max_length=20), F('b', 'Integer', null=True),
                                F('c', 'Integer', db_index=True)], **kw)
rows = {'pa.Alpha': [{'id': 1, 'pa.Alpha.a': 'x', 'pa.Alpha.b': None, 'pa.Alpha.c': 3},
                     {'id': 2, 'pa.Alpha.a': "it's", 'pa.Alpha.b': 7, 'pa.Alpha.c': 4}]}
BAR = {'kind': 'SQLMutation', 'app': 'pa', 'tag': 'barrier'}

# X-C03-2 (formerly open finding F-C03-1, repaired): definitions rewritten in place
save('X-C03-2_add_then_rename_field', 'X-C03-2', proj(('pa', alpha())),
     [add('Alpha', F('d', 'Char', max_length=20), 'x'), ren('Alpha', 'd', 'e')], rows)
save('X-C03-2_rename_then_delete_field', 'X-C03-2', proj(('pa', alpha())),
     [ren('Alpha', 'b', 'e'), {'kind': 'DeleteField', 'app': 'pa', 'model': 'Alpha', 'name': 'e'}],
     rows)
save('F-C03-2_initial_parameter_order', 'F-C03-2', proj(('pa', alpha())),
     [add('Alpha', F('d', 'Char', max_length=20), 'x'), chg('Alpha', 'b', 1, null=False)], rows)
save('F-C03-3_db_index_false_in_rebuild', 'F-C03-3', proj(('pa', alpha())),
     [chg('Alpha', 'b', 1, null=False), chg('Alpha', 'c', db_index=False)], rows)
save('F-C03-3_db_index_true_in_rebuild', 'F-C03-3', proj(('pa', M('Author', [F('c', 'Integer')]))),
     [add('Author', F('a', 'Char', max_length=10, null=True)), chg('Author', 'c', db_index=True)])
save('F-C03-4_rename_model_regroup', 'F-C03-4', proj(('pa', alpha())),
     [{'kind': 'RenameModel', 'app': 'pa', 'old': 'Alpha', 'new': 'Aaa', 'db_table': 'pa_alpha'},
      add('Aaa', F('d', 'Integer', null=True))], rows)
save('F-C03-5_rebuild_then_change_meta', 'F-C03-5',
     proj(('pa', M('Tag', [F('name', 'Text'), F('d', 'Integer')], unique_together=[['name', 'd']]))),
     [chg('Tag', 'name', null=True), meta('Tag', 'unique_together', [])])
save('F-C03-6_rename_field_chain', 'F-C03-6',
     proj(('pa', M('BookStore', [F('ref', 'Char', max_length=10, db_index=True)]))),
     [ren('BookStore', 'ref', 'title', db_column='ref'), ren('BookStore', 'title', 'b')])
save('F-C03-7_change_field_folding', 'F-C03-7', proj(('pa', M('BookStore', []))),
     [add('BookStore', F('g', 'Decimal', max_digits=8, decimal_places=2), {'decimal': '10'}),
      chg('BookStore', 'g', field_kind='Char', max_length=50)])
save('F-C03-8_barrier_stale_state', 'F-C03-8',
     proj(('pa', M('Book', [F('a', 'Integer', null=True, unique=True)]))),
     [chg('Book', 'a', db_column='cc0_a'), BAR, chg('Book', 'a', unique=False)])
save('F-C03-9_db_column_and_meta', 'F-C03-9',
     proj(('pa', M('Book', [F('b', 'Integer', null=True), F('d', 'Text', null=True),
                            F('name', 'Integer')], index_together=[['d', 'b', 'name']]))),
     [chg('Book', 'b', db_column='cc0_b'), meta('Book', 'index_together', [])])
save('F-C03-10_index_overlap', 'F-C03-10', proj(('pa', alpha())),
     [meta('Alpha', 'indexes', [{'name': 'alpha_ix', 'fields': ['c'], 'condition': None}]),
      chg('Alpha', 'c', db_index=False), meta('Alpha', 'indexes', [])], rows)
save('F-C03-11_change_meta_twice', 'F-C03-11',
     proj(('pa', M('BookStore', [])),
          ('pa', M('Tag', [F('b', 'ForeignKey', target=['pa', 'BookStore'], null=True),
                           F('d', 'Char', max_length=10, null=True)]))),
     [meta('Tag', 'index_together', [['b', 'd']]), meta('Tag', 'index_together', [])])
save('F-C03-12_add_rename_db_column', 'F-C03-12', proj(('pa', M('BookStore', [F('b', 'Integer')]))),
     [add('BookStore', F('g', 'Boolean', db_column='col_g'), False), ren('BookStore', 'g', 'd')])
save('F-C03-13_delete_name_reuse', 'F-C03-13', proj(('pa', alpha())),
     [{'kind': 'DeleteField', 'app': 'pa', 'model': 'Alpha', 'name': 'a'},
      add('Alpha', F('a', 'Char', max_length=10), 'n'),
      {'kind': 'DeleteField', 'app': 'pa', 'model': 'Alpha', 'name': 'a'}], rows)
print(len(os.listdir(OUT)))
