#!/bin/sh
# usage: tools/mutant_matrix.sh [<seeded dir name>...]
# For every kept seeded change under /verif/seeded/<name>/patch.diff: apply it to /repo,
# run the quick check of its own property (plus the extra checks listed in EXTRA), revert.
# Writes one line per (mutant, check) to /verif/seeded/MATRIX.txt.
cd /verif || exit 2
out=/verif/seeded/MATRIX.txt
[ $# -eq 0 ] && : > "$out"
names="$*"
[ -z "$names" ] && names=$(ls seeded | grep '_m[0-9]*$')
for name in $names; do
  id=${name%%_*}
  extra=""
  case "$id" in
    C01|C02|C04) extra="C03";;
    C18) extra="C03";;
  esac
  git -C /repo diff --quiet || { echo "repo dirty"; exit 2; }
  if ! git -C /repo apply "/verif/seeded/$name/patch.diff" 2>/dev/null; then
    echo "$name NOAPPLY" >> "$out"; continue
  fi
  for chk in $id $extra; do
    res=$(PYTHONHASHSEED=0 /venv/bin/python -m pbt.run "$chk" --tier quick --no-evidence 2>&1)
    rc=$?
    nv=$(echo "$res" | grep -c '^VIOLATION')
    b=$(echo "$res" | grep 'bucket:' | head -1 | cut -c1-120)
    echo "$name $chk rc=$rc violations=$nv $b" >> "$out"
  done
  git -C /repo checkout -- .
done
cat "$out"
