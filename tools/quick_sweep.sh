#!/bin/sh
# usage: tools/quick_sweep.sh <seed>...   (quick tier of all 18 checks at each seed; one summary line per run)
cd "$(dirname "$0")/.." || exit 2
rc=0
for s in "$@"; do
  for n in 01 02 03 04 05 06 07 08 09 10 11 12 13 14 15 16 17 18; do
    out=$(VERIF_SEED=$s PYTHONHASHSEED=0 /venv/bin/python -m pbt.run C$n --tier quick --no-evidence 2>&1); r=$?
    nv=$(echo "$out" | grep -c '^VIOLATION')
    echo "seed=$s C$n rc=$r violations=$nv"
    [ $r -ne 0 ] && { rc=1; echo "$out" | grep -v '^KNOWN-FINDING' | tail -15; }
  done
done
exit $rc
