#!/bin/sh
# usage: save_seeded.sh <prop id> <n>  -> copies a verified mutant into /verif/seeded/<id>_m<n>/
id="$1"; n="$2"; src=/tmp/wt/$id/_out; dst=/verif/seeded/${id}_m$n
mkdir -p "$dst"
cp "$src/mutant$n.diff" "$dst/patch.diff"; cp "$src/demo$n.py" "$dst/demo.py"
/venv/bin/python - "$src/meta$n.json" "$dst/meta.json" "/tmp/vm_${id}_$n.log" <<'PY'
import json,sys
m=json.load(open(sys.argv[1])); log=open(sys.argv[3]).read()
out={'property':m.get('property'),'summary':m.get('summary'),'needs_to_manifest':m.get('needs_to_manifest'),'files':m.get('files'),
 'verified_by_me':{'procedure':'scratch worktree of /repo HEAD: demo on unchanged tree, git apply patch.diff, full test suite, demo with mutant; worktree removed afterwards','log':log.strip().splitlines()},
 'detected_by':[]}
json.dump(out,open(sys.argv[2],'w'),indent=1)
PY
echo saved $dst
