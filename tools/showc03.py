"""Pretty-print C03/C18 replays."""
import json, sys
sys.path.insert(0, '/verif')
from pbt.props import c03
from pbt import render
for path in sys.argv[1:]:
    d = json.load(open(path))
    c = c03.expand(d['case'])
    print('==', path.split('/')[-1], '| occ', d.get('occurrences'), '|', d.get('bucket'))
    if c.get('mode') != 'small':
        for a, app in c['spec']['apps'].items():
            for n, m in app['models'].items():
                print('   MODEL', a, n, m['db_table'], {k: m[k] for k in ('unique_together', 'index_together', 'indexes', 'constraints') if m[k]},
                      [(f['name'], f['kind'], {k: v for k, v in f.items() if v not in (None, False) and k in ('null','db_index','unique','db_column','target')}) for f in m['fields']])
    for m in c['seq']:
        extra = ''
        if m['kind'] == 'ChangeField': extra = ' %s init=%s' % (m['attrs'], m.get('initial'))
        if m['kind'] == 'AddField': extra = ' init=%s null=%s' % (m.get('initial'), m['field']['null'])
        if m['kind'] == 'RenameField': extra = ' col=%s' % m.get('db_column')
        if m['kind'] == 'ChangeMeta': extra = ' %s' % json.dumps(m['value'])[:100]
        print('   ', render.describe(m) + extra)
    print('    cuts', c.get('cuts'))
    for a in d['atoms'][:6]:
        print('    ATOM', str(a)[:260])
