"""Pretty-print history-based replays (C04, C07, C08, C14, C17 ...)."""
import json, sys
sys.path.insert(0, '/verif')
from pbt import render
for path in sys.argv[1:]:
    d = json.load(open(path))
    c = d['case']
    print('==', path.split('/')[-1], '| occ', d.get('occurrences'), '|', (d.get('bucket') or '')[:200])
    h = c.get('history')
    if h:
        for a, app in h['v0']['apps'].items():
            for n, m in app['models'].items():
                print('   V0 MODEL', a, n, m['db_table'], {k: m[k] for k in ('unique_together', 'index_together', 'indexes', 'constraints') if m[k]},
                      [(f['name'], f['kind'], {k: v for k, v in f.items() if v not in (None, False) and k in ('null','db_index','unique','db_column','target','db_table')}) for f in m['fields']])
        for s in h['steps']:
            if s['type'] == 'evolve':
                print('   STEP evolve', s['app'], s['label'])
                for m in s['seq']:
                    extra = ''
                    if m['kind'] == 'ChangeField': extra = ' %s init=%s' % (m['attrs'], m.get('initial'))
                    if m['kind'] == 'AddField': extra = ' %s init=%s' % ({k: v for k, v in m['field'].items() if v not in (None, False) and k not in ('uid','name','kind')}, m.get('initial'))
                    if m['kind'] == 'ChangeMeta': extra = ' ' + json.dumps(m['value'])[:120]
                    if m['kind'] == 'RenameField': extra = ' col=%s tbl=%s' % (m.get('db_column'), m.get('db_table'))
                    print('        ', render.describe(m) + extra)
            else:
                m = s['model']
                print('   STEP', s['type'], s['app'], m['name'], [(f['name'], f['kind'], f.get('target')) for f in m['fields']])
    for k in c:
        if k not in ('history', 'rows_at'):
            print('   %s: %s' % (k, json.dumps(c[k])[:300]))
    for a in d['atoms'][:8]:
        print('    ATOM', str(a)[:300])
