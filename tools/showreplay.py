"""Pretty-print replay files: python tools/showreplay.py replays/C01/*.json"""
import json, sys
for path in sys.argv[1:]:
    d = json.load(open(path))
    c = d.get('case', d)
    print('==', path)
    print('bucket:', d.get('bucket'), '| occurrences', d.get('occurrences'), '| shrink checks', d.get('shrink_checks'))
    if 'spec' in c:
        print('mode', c.get('mode'))
        for a, app in c['spec']['apps'].items():
            for n, m in app['models'].items():
                print(' MODEL', a, n, 'table', m['db_table'],
                      {k: m[k] for k in ('unique_together', 'index_together', 'indexes', 'constraints') if m[k]})
                for f in m['fields']:
                    print('    F', {k: v for k, v in f.items() if v not in (None, False) and k != 'uid'})
        for m in c.get('seq', []):
            if m['kind'] == 'AddField':
                m = dict(m, field={k: v for k, v in m['field'].items() if v not in (None, False) and k != 'uid'})
            print(' MUT', m)
        if c.get('rows') and any(c['rows'].values()):
            print(' ROWS', c['rows'], c.get('links'))
    else:
        print(json.dumps(c, indent=1, default=str)[:3000])
    for a in d.get('atoms', [])[:8]:
        print(' ATOM', a)
