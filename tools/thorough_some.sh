#!/bin/sh
# usage: tools/thorough_some.sh <ID>...   (runs the thorough tier of each check in turn; summary lines at the end)
cd "$(dirname "$0")/.." || exit 2
rc=0
for id in "$@"; do
  echo "=== $id thorough"; ./check.sh "$id" thorough 2>&1 | grep -v "^KNOWN-FINDING" | tail -12
  [ $? -ne 0 ] && rc=1
done
exit $rc
