#!/bin/sh
# usage: tools/try_mutant.sh <patch.diff> <ID> [<ID>...]   (applies to /repo, runs quick checks, reverts)
diff="$1"; shift
cd /repo || exit 2
git diff --quiet || { echo "repo dirty"; exit 2; }
git apply "$diff" || { echo "patch does not apply"; exit 2; }
for id in "$@"; do
  out=$(cd /verif && PYTHONHASHSEED=0 /venv/bin/python -m pbt.run "$id" --tier quick --no-evidence 2>&1)
  rc=$?
  echo "== $id rc=$rc $(echo "$out" | grep -c '^VIOLATION') violation line(s)"
  echo "$out" | grep "^VIOLATION\|bucket:\|HARNESS\|INCONCL" | head -6 | cut -c1-220
done
git -C /repo checkout -- .
