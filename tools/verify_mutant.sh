#!/bin/sh
# usage: verify_mutant.sh <prop id> <n>   -> verifies /tmp/wt/<id>/_out/mutant<n>.diff in a scratch worktree
id="$1"; n="$2"
src=/tmp/wt/$id/_out
wt=/tmp/vm_${id}_$n
log=/tmp/vm_${id}_$n.log
rm -rf "$wt"; git -C /repo worktree prune
git -C /repo worktree add -q --detach "$wt" HEAD || exit 2
mkdir -p "$wt/_out" && cp "$src"/demo$n.py "$wt/_out/"
cd "$wt"
{
echo "== demo on unchanged tree"; /venv/bin/python _out/demo$n.py >/tmp/vm_${id}_$n.d0 2>&1; echo "demo_unchanged_rc=$?"; tail -2 /tmp/vm_${id}_$n.d0
git apply "$src/mutant$n.diff" || echo "APPLY_FAILED"
echo "== suite with mutant"; timeout 1200 /venv/bin/python -m pytest -q -p no:cacheprovider --timeout=900 2>&1 | tail -1
echo "== demo with mutant"; /venv/bin/python _out/demo$n.py >/tmp/vm_${id}_$n.d1 2>&1; echo "demo_mutant_rc=$?"; tail -2 /tmp/vm_${id}_$n.d1
} > "$log" 2>&1
cd /; git -C /repo worktree remove --force "$wt"
echo "done $id $n"
